//! Verification MODEL of `smallvec::SmallVec` for the uses fn_graph makes of it
//! (`TypeIds = SmallVec<[TypeId; 8]>`: `new`, `push`, `iter`, `len`, `get`, `first`,
//! `last`, `contains`, indexing; no slice deref - code that needs one does not
//! compile against the model and the check reports that as inconclusive).
//!
//! The real type keeps its items in a `union` of inline and heap storage and is
//! read through slices at symbolic offsets, which costs CBMC tens of millions of
//! clauses for one conflict test. The model keeps at most `CAP` items in
//! `Option` slots that are only ever addressed with constant indices: `push`
//! fills the first free slot, `iter` visits the slots in order (= insertion
//! order, nothing is ever removed). More than `CAP` items trip a model-bound
//! assertion (the harness declares at most 2 data types).
use core::marker::PhantomData;

/// Model capacity (the real inline capacity is `A::size()`).
pub const CAP: usize = 2;

pub unsafe trait Array {
    type Item;
    fn size() -> usize;
}
unsafe impl<T, const N: usize> Array for [T; N] {
    type Item = T;
    fn size() -> usize {
        N
    }
}

pub struct SmallVec<A: Array> {
    slots: [Option<A::Item>; CAP],
    _a: PhantomData<A>,
}

impl<A: Array> SmallVec<A> {
    pub fn new() -> Self {
        SmallVec { slots: [const { None }; CAP], _a: PhantomData }
    }
    pub fn with_capacity(_n: usize) -> Self {
        Self::new()
    }
    pub fn push(&mut self, value: A::Item) {
        let mut v = Some(value);
        let mut i = 0;
        while i < CAP {
            if v.is_some() && self.slots[i].is_none() {
                self.slots[i] = v.take();
            }
            i += 1;
        }
        assert!(v.is_none(), "model bound exceeded: SmallVec model capacity");
    }
    pub fn len(&self) -> usize {
        let mut n = 0;
        let mut i = 0;
        while i < CAP {
            if self.slots[i].is_some() {
                n += 1;
            }
            i += 1;
        }
        n
    }
    pub fn is_empty(&self) -> bool {
        self.len() == 0
    }
    pub fn iter(&self) -> Iter<'_, A> {
        Iter { v: self, i: 0 }
    }
    pub fn get(&self, index: usize) -> Option<&A::Item> {
        let mut r = None;
        let mut i = 0;
        while i < CAP {
            if i == index {
                r = self.slots[i].as_ref();
            }
            i += 1;
        }
        r
    }
    pub fn first(&self) -> Option<&A::Item> {
        self.slots[0].as_ref()
    }
    pub fn last(&self) -> Option<&A::Item> {
        let mut r = None;
        let mut i = 0;
        while i < CAP {
            if self.slots[i].is_some() {
                r = self.slots[i].as_ref();
            }
            i += 1;
        }
        r
    }
    pub fn contains(&self, x: &A::Item) -> bool
    where
        A::Item: PartialEq,
    {
        let mut r = false;
        let mut i = 0;
        while i < CAP {
            if let Some(y) = self.slots[i].as_ref() {
                if y == x {
                    r = true;
                }
            }
            i += 1;
        }
        r
    }
    pub fn clear(&mut self) {
        let mut i = 0;
        while i < CAP {
            self.slots[i] = None;
            i += 1;
        }
    }
}
impl<A: Array> Default for SmallVec<A> {
    fn default() -> Self {
        Self::new()
    }
}
pub struct Iter<'a, A: Array> {
    v: &'a SmallVec<A>,
    i: usize,
}
impl<'a, A: Array> Clone for Iter<'a, A> {
    fn clone(&self) -> Self {
        Iter { v: self.v, i: self.i }
    }
}
impl<'a, A: Array> Iterator for Iter<'a, A> {
    type Item = &'a A::Item;
    fn next(&mut self) -> Option<&'a A::Item> {
        // Slots are filled front to back and never emptied: the first empty
        // slot ends the sequence. `i` counts from the constant 0, so the end
        // after CAP items is visible to constant propagation.
        if self.i >= CAP {
            return None;
        }
        let r = self.v.slots[self.i].as_ref();
        if r.is_some() {
            self.i += 1;
        } else {
            self.i = CAP;
        }
        r
    }
}
impl<A: Array> core::ops::Index<usize> for SmallVec<A> {
    type Output = A::Item;
    fn index(&self, index: usize) -> &A::Item {
        self.get(index).expect("index out of bounds")
    }
}
impl<'a, A: Array> IntoIterator for &'a SmallVec<A> {
    type Item = &'a A::Item;
    type IntoIter = Iter<'a, A>;
    fn into_iter(self) -> Self::IntoIter {
        self.iter()
    }
}
/// By-value iterator (insertion order).
pub struct IntoIter<A: Array> {
    v: SmallVec<A>,
    i: usize,
}
impl<A: Array> Iterator for IntoIter<A> {
    type Item = A::Item;
    fn next(&mut self) -> Option<A::Item> {
        if self.i >= CAP {
            return None;
        }
        let mut r = None;
        let mut k = 0;
        while k < CAP {
            if k == self.i {
                r = self.v.slots[k].take();
            }
            k += 1;
        }
        if r.is_some() {
            self.i += 1;
        } else {
            self.i = CAP;
        }
        r
    }
}
impl<A: Array> IntoIterator for SmallVec<A> {
    type Item = A::Item;
    type IntoIter = IntoIter<A>;
    fn into_iter(self) -> IntoIter<A> {
        IntoIter { v: self, i: 0 }
    }
}
impl<A: Array> Clone for SmallVec<A>
where
    A::Item: Clone,
{
    fn clone(&self) -> Self {
        let mut v = Self::new();
        let mut i = 0;
        while i < CAP {
            v.slots[i] = self.slots[i].clone();
            i += 1;
        }
        v
    }
}
impl<A: Array> core::fmt::Debug for SmallVec<A>
where
    A::Item: core::fmt::Debug,
{
    fn fmt(&self, f: &mut core::fmt::Formatter<'_>) -> core::fmt::Result {
        f.debug_list().entries(self.iter()).finish()
    }
}
impl<A: Array> PartialEq for SmallVec<A>
where
    A::Item: PartialEq,
{
    fn eq(&self, other: &Self) -> bool {
        let mut i = 0;
        let mut eq = true;
        while i < CAP {
            if self.slots[i] != other.slots[i] {
                eq = false;
            }
            i += 1;
        }
        eq
    }
}
impl<A: Array> Eq for SmallVec<A> where A::Item: Eq {}
impl<A: Array> Extend<A::Item> for SmallVec<A> {
    fn extend<I: IntoIterator<Item = A::Item>>(&mut self, iter: I) {
        for x in iter {
            self.push(x);
        }
    }
}
impl<A: Array> core::iter::FromIterator<A::Item> for SmallVec<A> {
    fn from_iter<I: IntoIterator<Item = A::Item>>(iter: I) -> Self {
        let mut v = Self::new();
        v.extend(iter);
        v
    }
}

#[macro_export]
macro_rules! smallvec {
    () => { $crate::SmallVec::new() };
    ($($x:expr),+ $(,)?) => {{
        let mut v = $crate::SmallVec::new();
        $( v.push($x); )+
        v
    }};
}
