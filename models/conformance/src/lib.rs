//! See tests/.
