//! tokio mpsc model vs real tokio, smallvec model vs real, VecDeque stub vs real.
use std::collections::VecDeque;
use std::sync::atomic::{AtomicUsize, Ordering};
use std::sync::Arc;
use std::task::{Context, Poll, Wake, Waker};

struct CountWaker(AtomicUsize);
impl Wake for CountWaker {
    fn wake(self: Arc<Self>) {
        self.0.fetch_add(1, Ordering::SeqCst);
    }
}

struct Rng(u64);
impl Rng {
    fn next(&mut self) -> u64 {
        self.0 ^= self.0 << 13;
        self.0 ^= self.0 >> 7;
        self.0 ^= self.0 << 17;
        self.0
    }
    fn below(&mut self, k: u64) -> u64 {
        self.next() % k
    }
}

fn seed() -> u64 {
    std::env::var("VERIF_SEED").ok().and_then(|s| s.parse().ok()).unwrap_or(1).max(1)
}

/// One receiver, up to 3 senders, capacity 1..=3; after every operation the
/// results and "was the polling task woken" are compared.
#[test]
fn mpsc_random_sequences() {
    let mut rng = Rng(seed().wrapping_mul(0x9E3779B97F4A7C15) | 1);
    let mut compared = 0u64;
    for _run in 0..4000 {
        let cap = 1 + rng.below(3) as usize;
        let (mtx, mrx) = m_tokio::sync::mpsc::channel::<u32>(cap);
        let (rtx, rrx) = r_tokio::sync::mpsc::channel::<u32>(cap);
        let (mut mrx, mut rrx) = (Some(mrx), Some(rrx));
        let mut mtxs = vec![Some(mtx)];
        let mut rtxs = vec![Some(rtx)];
        let cw = Arc::new(CountWaker(AtomicUsize::new(0)));
        let waker = Waker::from(cw.clone());
        let mut cx = Context::from_waker(&waker);
        let mut val = 0u32;
        let mut model_items = 0usize;
        let mut hist: Vec<String> = vec![];
        for _step in 0..14 {
            m_tokio::model::clear();
            let before = cw.0.load(Ordering::SeqCst);
            let opc = rng.below(11) % 6;
            hist.push(format!("op{opc} rx={} tx={:?}", mrx.is_some(), mtxs.iter().map(|t| t.is_some()).collect::<Vec<_>>()));
            match opc {
                0 | 1 => {
                    // try_send on a random live sender
                    let i = rng.below(mtxs.len() as u64) as usize;
                    if let (Some(ms), Some(rs)) = (&mtxs[i], &rtxs[i]) {
                        if model_items >= m_tokio::sync::mpsc::RING {
                            continue;
                        }
                        val += 1;
                        let a = ms.try_send(val);
                        let b = rs.try_send(val);
                        if a.is_ok() {
                            model_items += 1;
                        }
                        let ma = match a {
                            Ok(()) => (0, 0),
                            Err(m_tokio::sync::mpsc::error::TrySendError::Full(v)) => (1, v),
                            Err(m_tokio::sync::mpsc::error::TrySendError::Closed(v)) => (2, v),
                        };
                        let rb = match b {
                            Ok(()) => (0, 0),
                            Err(r_tokio::sync::mpsc::error::TrySendError::Full(v)) => (1, v),
                            Err(r_tokio::sync::mpsc::error::TrySendError::Closed(v)) => (2, v),
                        };
                        assert_eq!(ma, rb, "try_send result differs");
                    }
                }
                5 => {
                    // drop the receiver (rarely: only when the draw was exactly 5)
                    if mrx.is_some() {
                        mrx = None;
                        rrx = None;
                        model_items = 0;
                    }
                }
                2 => {
                    if let (Some(mrx), Some(rrx)) = (mrx.as_mut(), rrx.as_mut()) {
                        let a = mrx.poll_recv(&mut cx);
                        let b = rrx.poll_recv(&mut cx);
                        if let Poll::Ready(Some(_)) = a {
                            model_items -= 1;
                        }
                        assert_eq!(format!("{a:?}"), format!("{b:?}"));
                    }
                }
                3 => {
                    // clone or drop a sender
                    let i = rng.below(mtxs.len() as u64) as usize;
                    if rng.below(2) == 0 && mtxs.len() < 3 {
                        if let (Some(ms), Some(rs)) = (&mtxs[i], &rtxs[i]) {
                            let (a, b) = (ms.clone(), rs.clone());
                            mtxs.push(Some(a));
                            rtxs.push(Some(b));
                        }
                    } else {
                        mtxs[i] = None;
                        rtxs[i] = None;
                    }
                }
                _ => {
                    if let (Some(mrx), Some(rrx)) = (mrx.as_mut(), rrx.as_mut()) {
                        let a = mrx.try_recv();
                        let b = rrx.try_recv();
                        if a.is_ok() {
                            model_items -= 1;
                        }
                        assert_eq!(format!("{a:?}"), format!("{b:?}"));
                    }
                }
            }
            let real_woken = cw.0.load(Ordering::SeqCst) > before;
            assert_eq!(m_tokio::model::woken(), real_woken, "wake-up differs after {hist:?}");
            compared += 1;
        }
    }
    println!("mpsc conformance: {compared} operations compared");
}

#[test]
fn smallvec_push_iter() {
    for n in 0..=m_smallvec::CAP {
        let mut a: m_smallvec::SmallVec<[u32; 8]> = m_smallvec::SmallVec::new();
        let mut b: r_smallvec::SmallVec<[u32; 8]> = r_smallvec::SmallVec::new();
        for i in 0..n {
            a.push(10 + i as u32);
            b.push(10 + i as u32);
        }
        assert_eq!(a.len(), b.len());
        assert_eq!(a.iter().copied().collect::<Vec<_>>(), b.iter().copied().collect::<Vec<_>>());
        for x in 0..14u32 {
            assert_eq!(a.iter().any(|v| *v == x), b.iter().any(|v| *v == x));
        }
    }
}

#[test]
fn vecdeque_stub() {
    let mut rng = Rng(seed() | 1);
    for _ in 0..2000 {
        fgv::stubs::vd_reset();
        let init: Vec<usize> = (0..rng.below(4)).map(|_| rng.below(100) as usize).collect();
        let mut real: VecDeque<usize> = init.iter().copied().collect();
        let mut stubbed: VecDeque<usize> = init.iter().copied().collect();
        let mut pushed = 0;
        for _ in 0..20 {
            if rng.below(2) == 0 && pushed < fgv::stubs::RING {
                let v = rng.below(100) as usize;
                real.push_back(v);
                fgv::stubs::vd_push_back_native(&mut stubbed, v);
                pushed += 1;
            } else {
                assert_eq!(real.pop_front(), fgv::stubs::vd_pop_front_native(&mut stubbed));
            }
        }
    }
}
