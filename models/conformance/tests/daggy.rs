//! Model daggy vs real daggy: every sequence of up to 4 edge operations over 3
//! nodes; after every operation all observable results are compared.
use m_daggy as m;
use r_daggy as r;
use m::Walker as MW;
use r::Walker as RW;

#[derive(Clone, Copy, Debug)]
enum Op {
    Add(usize, usize, u8),
    Update(usize, usize, u8),
}

fn observe_m(g: &m::Dag<u8, u8, u32>) -> String {
    let mut s = String::new();
    for e in g.raw_edges() {
        s += &format!("e{}>{}:{};", e.source().index(), e.target().index(), e.weight);
    }
    for n in 0..g.node_count() {
        let ni = m::NodeIndex::new(n);
        let c: Vec<_> = g.children(ni).iter(g).map(|(e, n)| (e.index(), n.index())).collect();
        let p: Vec<_> = g.parents(ni).iter(g).map(|(e, n)| (e.index(), n.index())).collect();
        s += &format!("c{n}{c:?}p{n}{p:?};");
        for k in 0..g.node_count() {
            let kk = m::NodeIndex::new(k);
            s += &format!("h{}f{:?};", m::petgraph::algo::has_path_connecting(g, ni, kk, None), g.find_edge(ni, kk).map(|e| e.index()));
        }
    }
    let mut t = m::petgraph::visit::Topo::new(g);
    let mut order = vec![];
    while let Some(n) = t.next(g) {
        order.push(n.index());
    }
    s += &format!("t{order:?}");
    s
}

fn observe_r(g: &r::Dag<u8, u8, u32>) -> String {
    let mut s = String::new();
    for e in g.raw_edges() {
        s += &format!("e{}>{}:{};", e.source().index(), e.target().index(), e.weight);
    }
    for n in 0..g.node_count() {
        let ni = r::NodeIndex::new(n);
        let c: Vec<_> = g.children(ni).iter(g).map(|(e, n)| (e.index(), n.index())).collect();
        let p: Vec<_> = g.parents(ni).iter(g).map(|(e, n)| (e.index(), n.index())).collect();
        s += &format!("c{n}{c:?}p{n}{p:?};");
        for k in 0..g.node_count() {
            let kk = r::NodeIndex::new(k);
            s += &format!("h{}f{:?};", r::petgraph::algo::has_path_connecting(g.graph(), ni, kk, None), g.find_edge(ni, kk).map(|e| e.index()));
        }
    }
    let mut t = r::petgraph::visit::Topo::new(g.graph());
    let mut order = vec![];
    while let Some(n) = t.next(g.graph()) {
        order.push(n.index());
    }
    s += &format!("t{order:?}");
    s
}

fn run(seq: &[Op]) -> Option<()> {
    let mut gm = m::Dag::<u8, u8, u32>::new();
    let mut gr = r::Dag::<u8, u8, u32>::new();
    for i in 0..3u8 {
        assert_eq!(gm.add_node(i).index(), gr.add_node(i).index());
    }
    for (step, op) in seq.iter().enumerate() {
        let (a, b) = match op {
            Op::Add(a, b, _) | Op::Update(a, b, _) => (*a, *b),
        };
        // stay inside the model bounds (ADJ entries per node, MAX_EDGES edges)
        let out = gr.raw_edges().iter().filter(|e| e.source().index() == a).count();
        let inn = gr.raw_edges().iter().filter(|e| e.target().index() == b).count();
        if out >= m::ADJ || inn >= m::ADJ || gr.edge_count() >= m::MAX_EDGES {
            return None;
        }
        let (rm, rr) = match *op {
            Op::Add(a, b, w) => (
                gm.add_edge(m::NodeIndex::new(a), m::NodeIndex::new(b), w).map(|e| e.index()).map_err(|e| e.0),
                gr.add_edge(r::NodeIndex::new(a), r::NodeIndex::new(b), w).map(|e| e.index()).map_err(|e| e.0),
            ),
            Op::Update(a, b, w) => (
                gm.update_edge(m::NodeIndex::new(a), m::NodeIndex::new(b), w).map(|e| e.index()).map_err(|e| e.0),
                gr.update_edge(r::NodeIndex::new(a), r::NodeIndex::new(b), w).map(|e| e.index()).map_err(|e| e.0),
            ),
        };
        assert_eq!(rm, rr, "result of step {step} differs in {seq:?}");
        assert_eq!(observe_m(&gm), observe_r(&gr), "observation after step {step} differs in {seq:?}");
    }
    Some(())
}

#[test]
fn all_sequences_up_to_4_ops() {
    let mut ops = vec![];
    for a in 0..3 {
        for b in 0..3 {
            ops.push(Op::Add(a, b, 0));
            ops.push(Op::Update(a, b, 0));
        }
    }
    let mut checked = 0u64;
    let n = ops.len();
    for len in 1..=4usize {
        let total = n.pow(len as u32);
        for code in 0..total {
            let mut c = code;
            let mut seq = Vec::with_capacity(len);
            for i in 0..len {
                let mut op = ops[c % n];
                c /= n;
                // distinct weights so that update_edge's overwrite is visible
                op = match op {
                    Op::Add(a, b, _) => Op::Add(a, b, i as u8 + 1),
                    Op::Update(a, b, _) => Op::Update(a, b, i as u8 + 1),
                };
                seq.push(op);
            }
            if run(&seq).is_some() {
                checked += 1;
            }
        }
    }
    println!("daggy conformance: {checked} operation sequences compared");
    assert!(checked > 50_000);
}
