//! Model daggy vs real daggy: every sequence of up to 4 edge operations over 3
//! nodes; after every operation all observable results are compared.
use m_daggy as m;
use r_daggy as r;
use m::Walker as MW;
use r::Walker as RW;

#[derive(Clone, Copy, Debug)]
enum Op {
    Add(usize, usize, u8),
    Update(usize, usize, u8),
}

fn observe_m(g: &m::Dag<u8, u8, u32>) -> String {
    let mut s = String::new();
    for e in g.raw_edges() {
        s += &format!("e{}>{}:{};", e.source().index(), e.target().index(), e.weight);
    }
    for n in 0..g.node_count() {
        let ni = m::NodeIndex::new(n);
        let c: Vec<_> = g.children(ni).iter(g).map(|(e, n)| (e.index(), n.index())).collect();
        let p: Vec<_> = g.parents(ni).iter(g).map(|(e, n)| (e.index(), n.index())).collect();
        s += &format!("c{n}{c:?}p{n}{p:?};");
        for k in 0..g.node_count() {
            let kk = m::NodeIndex::new(k);
            s += &format!("h{}f{:?};", m::petgraph::algo::has_path_connecting(g, ni, kk, None), g.find_edge(ni, kk).map(|e| e.index()));
        }
    }
    let mut t = m::petgraph::visit::Topo::new(g);
    let mut order = vec![];
    while let Some(n) = t.next(g) {
        order.push(n.index());
    }
    s += &format!("t{order:?}");
    let rv = m::petgraph::visit::Reversed(g);
    let mut t = m::petgraph::visit::Topo::new(rv);
    let mut order = vec![];
    while let Some(n) = t.next(rv) {
        order.push(n.index());
    }
    s += &format!("r{order:?}");
    s
}

fn observe_r(g: &r::Dag<u8, u8, u32>) -> String {
    let mut s = String::new();
    for e in g.raw_edges() {
        s += &format!("e{}>{}:{};", e.source().index(), e.target().index(), e.weight);
    }
    for n in 0..g.node_count() {
        let ni = r::NodeIndex::new(n);
        let c: Vec<_> = g.children(ni).iter(g).map(|(e, n)| (e.index(), n.index())).collect();
        let p: Vec<_> = g.parents(ni).iter(g).map(|(e, n)| (e.index(), n.index())).collect();
        s += &format!("c{n}{c:?}p{n}{p:?};");
        for k in 0..g.node_count() {
            let kk = r::NodeIndex::new(k);
            s += &format!("h{}f{:?};", r::petgraph::algo::has_path_connecting(g.graph(), ni, kk, None), g.find_edge(ni, kk).map(|e| e.index()));
        }
    }
    let mut t = r::petgraph::visit::Topo::new(g.graph());
    let mut order = vec![];
    while let Some(n) = t.next(g.graph()) {
        order.push(n.index());
    }
    s += &format!("t{order:?}");
    let rv = r::petgraph::visit::Reversed(g.graph());
    let mut t = r::petgraph::visit::Topo::new(rv);
    let mut order = vec![];
    while let Some(n) = t.next(rv) {
        order.push(n.index());
    }
    s += &format!("r{order:?}");
    s
}

fn run(seq: &[Op]) -> Option<()> {
    let mut gm = m::Dag::<u8, u8, u32>::new();
    let mut gr = r::Dag::<u8, u8, u32>::new();
    for i in 0..3u8 {
        assert_eq!(gm.add_node(i).index(), gr.add_node(i).index());
    }
    for (step, op) in seq.iter().enumerate() {
        let (a, b) = match op {
            Op::Add(a, b, _) | Op::Update(a, b, _) => (*a, *b),
        };
        // stay inside the model bounds (ADJ entries per node, MAX_EDGES edges)
        let out = gr.raw_edges().iter().filter(|e| e.source().index() == a).count();
        let inn = gr.raw_edges().iter().filter(|e| e.target().index() == b).count();
        if out >= m::ADJ || inn >= m::ADJ || gr.edge_count() >= m::MAX_EDGES {
            return None;
        }
        let (rm, rr) = match *op {
            Op::Add(a, b, w) => (
                gm.add_edge(m::NodeIndex::new(a), m::NodeIndex::new(b), w).map(|e| e.index()).map_err(|e| e.0),
                gr.add_edge(r::NodeIndex::new(a), r::NodeIndex::new(b), w).map(|e| e.index()).map_err(|e| e.0),
            ),
            Op::Update(a, b, w) => (
                gm.update_edge(m::NodeIndex::new(a), m::NodeIndex::new(b), w).map(|e| e.index()).map_err(|e| e.0),
                gr.update_edge(r::NodeIndex::new(a), r::NodeIndex::new(b), w).map(|e| e.index()).map_err(|e| e.0),
            ),
        };
        assert_eq!(rm, rr, "result of step {step} differs in {seq:?}");
        assert_eq!(observe_m(&gm), observe_r(&gr), "observation after step {step} differs in {seq:?}");
    }
    Some(())
}

#[test]
fn all_sequences_up_to_4_ops() {
    let mut ops = vec![];
    for a in 0..3 {
        for b in 0..3 {
            ops.push(Op::Add(a, b, 0));
            ops.push(Op::Update(a, b, 0));
        }
    }
    let mut checked = 0u64;
    let n = ops.len();
    for len in 1..=4usize {
        let total = n.pow(len as u32);
        for code in 0..total {
            let mut c = code;
            let mut seq = Vec::with_capacity(len);
            for i in 0..len {
                let mut op = ops[c % n];
                c /= n;
                // distinct weights so that update_edge's overwrite is visible
                op = match op {
                    Op::Add(a, b, _) => Op::Add(a, b, i as u8 + 1),
                    Op::Update(a, b, _) => Op::Update(a, b, i as u8 + 1),
                };
                seq.push(op);
            }
            if run(&seq).is_some() {
                checked += 1;
            }
        }
    }
    println!("daggy conformance: {checked} operation sequences compared");
    assert!(checked > 50_000);
}

/// `add_edges`: every batch of up to 3 edges over 3 nodes on top of every single first edge.
#[test]
fn add_edges_batches() {
    let mut checked = 0;
    for first in 0..9usize {
        for code in 0..9usize.pow(3) {
            for len in 1..=3usize {
                let mut gm = m::Dag::<u8, u8, u32>::new();
                let mut gr = r::Dag::<u8, u8, u32>::new();
                for i in 0..3u8 {
                    gm.add_node(i);
                    gr.add_node(i);
                }
                let (a, b) = (first / 3, first % 3);
                let x = gm.add_edge(m::NodeIndex::new(a), m::NodeIndex::new(b), 9).is_ok();
                let y = gr.add_edge(r::NodeIndex::new(a), r::NodeIndex::new(b), 9).is_ok();
                assert_eq!(x, y);
                let mut c = code;
                let mut batch = vec![];
                for i in 0..len {
                    batch.push((c % 9 / 3, c % 9 % 3, i as u8 + 1));
                    c /= 9;
                }
                // stay inside the model bounds
                let mut out = [0usize; 3];
                let mut inn = [0usize; 3];
                if x {
                    out[a] += 1;
                    inn[b] += 1;
                }
                for (p, q, _) in &batch {
                    out[*p] += 1;
                    inn[*q] += 1;
                }
                if out.iter().any(|v| *v > m::ADJ) || inn.iter().any(|v| *v > m::ADJ) {
                    continue;
                }
                let rm = gm.add_edges(batch.iter().map(|(p, q, w)| (m::NodeIndex::new(*p), m::NodeIndex::new(*q), *w)));
                let rr = gr.add_edges(batch.iter().map(|(p, q, w)| (r::NodeIndex::new(*p), r::NodeIndex::new(*q), *w)));
                match (rm, rr) {
                    (Ok(im), Ok(ir)) => assert_eq!(im.map(|e| e.index()).collect::<Vec<_>>(), ir.map(|e| e.index()).collect::<Vec<_>>()),
                    (Err(em), Err(er)) => assert_eq!(em.0, er.0),
                    (a, b) => panic!("add_edges differs for {batch:?}: model ok={} real ok={}", a.is_ok(), b.is_ok()),
                }
                assert_eq!(observe_m(&gm), observe_r(&gr), "after add_edges {batch:?} on first {first}");
                checked += 1;
            }
        }
    }
    println!("add_edges conformance: {checked} batches compared");
}
