//! The single task of the model world: one global "woken" flag.
//!
//! Every wake-up of any waker registered with a model primitive sets this flag;
//! the harness' executor clears it before each poll and reads it afterwards.

use std::sync::atomic::{AtomicBool, Ordering};

static WOKEN: AtomicBool = AtomicBool::new(false);

pub fn wake() {
    WOKEN.store(true, Ordering::Relaxed);
}
pub fn woken() -> bool {
    WOKEN.load(Ordering::Relaxed)
}
pub fn clear() {
    WOKEN.store(false, Ordering::Relaxed);
}
