//! Bounded mpsc channel model: FIFO buffer of fixed capacity, sender count,
//! one receiver waker slot, list of blocked-sender wakers.
use std::cell::{Cell, RefCell};
use std::future::Future;
use std::pin::Pin;
use std::rc::Rc;
use std::task::{Context, Poll, Waker};

pub mod error {
    #[derive(Debug, PartialEq, Eq, Clone, Copy)]
    pub struct SendError<T>(pub T);
    #[derive(Debug, PartialEq, Eq, Clone, Copy)]
    pub enum TrySendError<T> {
        Full(T),
        Closed(T),
    }
    #[derive(Debug, PartialEq, Eq, Clone, Copy)]
    pub enum TryRecvError {
        Empty,
        Disconnected,
    }
}
use error::*;

pub const RING: usize = 4;
/// Fixed ring buffer (no heap, no growth). `cap` <= RING is asserted.
struct Ring<T> {
    slots: [Option<T>; RING],
    head: usize,
    len: usize,
}
impl<T> Ring<T> {
    fn new() -> Self {
        Ring { slots: [const { None }; RING], head: 0, len: 0 }
    }
    fn len(&self) -> usize {
        self.len
    }
    fn push_back(&mut self, v: T) {
        let i = (self.head + self.len) % RING;
        self.slots[i] = Some(v);
        self.len += 1;
    }
    fn pop_front(&mut self) -> Option<T> {
        if self.len == 0 {
            return None;
        }
        let v = self.slots[self.head].take();
        self.head = (self.head + 1) % RING;
        self.len -= 1;
        v
    }
    fn clear(&mut self) {
        let mut i = 0;
        while i < RING {
            self.slots[i] = None;
            i += 1;
        }
        self.len = 0;
    }
}
struct Chan<T> {
    buf: RefCell<Ring<T>>,
    cap: usize,
    tx_count: Cell<usize>,
    rx_closed: Cell<bool>,
    rx_waker: RefCell<Option<Waker>>,
    /// Single task: every blocked sender has the same waker; one slot suffices.
    tx_waker: RefCell<Option<Waker>>,
}

pub struct Sender<T> {
    chan: Rc<Chan<T>>,
}
pub struct Receiver<T> {
    chan: Rc<Chan<T>>,
}
// Single-task model; never actually shared between threads.
unsafe impl<T: Send> Send for Sender<T> {}
unsafe impl<T: Send> Sync for Sender<T> {}
unsafe impl<T: Send> Send for Receiver<T> {}
unsafe impl<T: Send> Sync for Receiver<T> {}

impl<T> std::fmt::Debug for Sender<T> {
    fn fmt(&self, f: &mut std::fmt::Formatter<'_>) -> std::fmt::Result {
        f.write_str("Sender")
    }
}
impl<T> std::fmt::Debug for Receiver<T> {
    fn fmt(&self, f: &mut std::fmt::Formatter<'_>) -> std::fmt::Result {
        f.write_str("Receiver")
    }
}

pub fn channel<T>(buffer: usize) -> (Sender<T>, Receiver<T>) {
    assert!(buffer > 0, "mpsc bounded channel requires buffer > 0");
    assert!(buffer <= RING, "model bound RING exceeded");
    let chan = Rc::new(Chan {
        buf: RefCell::new(Ring::new()),
        cap: buffer,
        tx_count: Cell::new(1),
        rx_closed: Cell::new(false),
        rx_waker: RefCell::new(None),
        tx_waker: RefCell::new(None),
    });
    (
        Sender {
            chan: chan.clone(),
        },
        Receiver { chan },
    )
}

impl<T> Chan<T> {
    fn wake_rx(&self) {
        let w = self.rx_waker.borrow_mut().take();
        if let Some(w) = w {
            w.wake();
        }
    }
    fn wake_txs(&self) {
        let w = self.tx_waker.borrow_mut().take();
        if let Some(w) = w {
            w.wake();
        }
    }
}

impl<T> Sender<T> {
    pub fn try_send(&self, value: T) -> Result<(), TrySendError<T>> {
        let c = &*self.chan;
        if c.rx_closed.get() {
            return Err(TrySendError::Closed(value));
        }
        if c.buf.borrow().len() >= c.cap {
            return Err(TrySendError::Full(value));
        }
        c.buf.borrow_mut().push_back(value);
        c.wake_rx();
        Ok(())
    }
    pub fn send(&self, value: T) -> SendFut<'_, T> {
        SendFut {
            tx: self,
            value: Some(value),
        }
    }
    pub fn is_closed(&self) -> bool {
        self.chan.rx_closed.get()
    }
    pub fn capacity(&self) -> usize {
        self.chan.cap - self.chan.buf.borrow().len()
    }
    pub fn max_capacity(&self) -> usize {
        self.chan.cap
    }
}
pub struct SendFut<'a, T> {
    tx: &'a Sender<T>,
    value: Option<T>,
}
impl<'a, T> Unpin for SendFut<'a, T> {}
impl<'a, T> Future for SendFut<'a, T> {
    type Output = Result<(), SendError<T>>;
    fn poll(mut self: Pin<&mut Self>, cx: &mut Context<'_>) -> Poll<Self::Output> {
        let this = &mut *self;
        let c = &*this.tx.chan;
        if c.rx_closed.get() {
            let v = this.value.take().expect("polled after completion");
            return Poll::Ready(Err(SendError(v)));
        }
        if c.buf.borrow().len() >= c.cap {
            *c.tx_waker.borrow_mut() = Some(cx.waker().clone());
            return Poll::Pending;
        }
        let v = this.value.take().expect("polled after completion");
        c.buf.borrow_mut().push_back(v);
        c.wake_rx();
        Poll::Ready(Ok(()))
    }
}
impl<T> Clone for Sender<T> {
    fn clone(&self) -> Self {
        self.chan.tx_count.set(self.chan.tx_count.get() + 1);
        Sender {
            chan: self.chan.clone(),
        }
    }
}
impl<T> Drop for Sender<T> {
    fn drop(&mut self) {
        let n = self.chan.tx_count.get() - 1;
        self.chan.tx_count.set(n);
        if n == 0 {
            self.chan.wake_rx();
        }
    }
}

impl<T> Receiver<T> {
    pub fn poll_recv(&mut self, cx: &mut Context<'_>) -> Poll<Option<T>> {
        let c = &*self.chan;
        let v = c.buf.borrow_mut().pop_front();
        match v {
            Some(v) => {
                c.wake_txs();
                Poll::Ready(Some(v))
            }
            None => {
                if c.tx_count.get() == 0 || c.rx_closed.get() {
                    Poll::Ready(None)
                } else {
                    *c.rx_waker.borrow_mut() = Some(cx.waker().clone());
                    Poll::Pending
                }
            }
        }
    }
    pub fn try_recv(&mut self) -> Result<T, TryRecvError> {
        let c = &*self.chan;
        let v = c.buf.borrow_mut().pop_front();
        match v {
            Some(v) => {
                c.wake_txs();
                Ok(v)
            }
            None => {
                if c.tx_count.get() == 0 || c.rx_closed.get() {
                    Err(TryRecvError::Disconnected)
                } else {
                    Err(TryRecvError::Empty)
                }
            }
        }
    }
    pub fn recv(&mut self) -> RecvFut<'_, T> {
        RecvFut { rx: self }
    }
    pub fn close(&mut self) {
        self.chan.rx_closed.set(true);
        self.chan.wake_txs();
    }
}
pub struct RecvFut<'a, T> {
    rx: &'a mut Receiver<T>,
}
impl<'a, T> Future for RecvFut<'a, T> {
    type Output = Option<T>;
    fn poll(mut self: Pin<&mut Self>, cx: &mut Context<'_>) -> Poll<Option<T>> {
        self.rx.poll_recv(cx)
    }
}
impl<T> Drop for Receiver<T> {
    fn drop(&mut self) {
        self.chan.rx_closed.set(true);
        self.chan.buf.borrow_mut().clear();
        self.chan.wake_txs();
    }
}
