//! Bounded mpsc channel MODEL for single-task symbolic execution.
//!
//! * FIFO buffer of at most `RING` items stored inline, requested capacity kept
//!   as a number;
//! * sender count, receiver-closed flag;
//! * wake-ups: the model assumes ONE task (every `Context` handed to it belongs
//!   to the harness' executor), so "register the waker" is a `waiting` flag and
//!   "wake" sets the global flag `crate::model::WOKEN` that the executor reads.
//!   This is exactly an `AtomicWaker` holding the only waker that exists.
use std::cell::{Cell, UnsafeCell};
use std::future::Future;
use std::pin::Pin;
use std::task::{Context, Poll};

pub mod error {
    #[derive(Debug, PartialEq, Eq, Clone, Copy)]
    pub struct SendError<T>(pub T);
    #[derive(Debug, PartialEq, Eq, Clone, Copy)]
    pub enum TrySendError<T> {
        Full(T),
        Closed(T),
    }
    #[derive(Debug, PartialEq, Eq, Clone, Copy)]
    pub enum TryRecvError {
        Empty,
        Disconnected,
    }
}
use error::*;

/// Ring capacity of the model. The capacity requested by the caller is kept as
/// a number (`cap`) and may exceed `RING`; only an actual occupancy above
/// `RING` trips the model-bound assertion.
pub const RING: usize = 4;

/// Inline FIFO: items are kept at indices `0..len`, `pop_front` shifts down.
struct Fifo<T> {
    slots: [Option<T>; RING],
    len: u8,
}
impl<T> Fifo<T> {
    fn new() -> Self {
        Fifo { slots: [const { None }; RING], len: 0 }
    }
    fn len(&self) -> usize {
        self.len as usize
    }
    fn push_back(&mut self, v: T) {
        assert!((self.len as usize) < RING, "model bound exceeded: mpsc RING");
        self.slots[self.len as usize] = Some(v);
        self.len += 1;
    }
    fn pop_front(&mut self) -> Option<T> {
        if self.len == 0 {
            return None;
        }
        let v = self.slots[0].take();
        // RING = 4, spelled out so that no loop bound depends on the model.
        self.slots[0] = self.slots[1].take();
        self.slots[1] = self.slots[2].take();
        self.slots[2] = self.slots[3].take();
        self.len -= 1;
        v
    }
    fn clear(&mut self) {
        self.slots[0] = None;
        self.slots[1] = None;
        self.slots[2] = None;
        self.slots[3] = None;
        self.len = 0;
    }
}

struct Chan<T> {
    buf: UnsafeCell<Fifo<T>>,
    cap: usize,
    tx_count: Cell<usize>,
    rx_closed: Cell<bool>,
    /// The receiver returned `Pending` and has not been woken since.
    rx_waiting: Cell<bool>,
    /// Some sender returned `Pending` and has not been woken since.
    tx_waiting: Cell<bool>,
}

/// Handles point at a channel that is allocated once and never freed (the
/// model does no reference counting: a verification run is short-lived and
/// `tx_count` / `rx_closed` carry all the semantics the contract needs).
pub struct Sender<T> {
    chan: *const Chan<T>,
}
pub struct Receiver<T> {
    chan: *const Chan<T>,
}
impl<T> Sender<T> {
    fn c(&self) -> &Chan<T> {
        // SAFETY: the channel is leaked, hence valid for the whole run.
        unsafe { &*self.chan }
    }
}
impl<T> Receiver<T> {
    fn c(&self) -> &Chan<T> {
        // SAFETY: the channel is leaked, hence valid for the whole run.
        unsafe { &*self.chan }
    }
}
// Single-task model; never actually shared between threads.
unsafe impl<T: Send> Send for Sender<T> {}
unsafe impl<T: Send> Sync for Sender<T> {}
unsafe impl<T: Send> Send for Receiver<T> {}
unsafe impl<T: Send> Sync for Receiver<T> {}

impl<T> std::fmt::Debug for Sender<T> {
    fn fmt(&self, f: &mut std::fmt::Formatter<'_>) -> std::fmt::Result {
        f.write_str("Sender")
    }
}
impl<T> std::fmt::Debug for Receiver<T> {
    fn fmt(&self, f: &mut std::fmt::Formatter<'_>) -> std::fmt::Result {
        f.write_str("Receiver")
    }
}

pub fn channel<T>(buffer: usize) -> (Sender<T>, Receiver<T>) {
    assert!(buffer > 0, "mpsc bounded channel requires buffer > 0");
    let chan: *const Chan<T> = Box::into_raw(Box::new(Chan {
        buf: UnsafeCell::new(Fifo::new()),
        cap: buffer,
        tx_count: Cell::new(1),
        rx_closed: Cell::new(false),
        rx_waiting: Cell::new(false),
        tx_waiting: Cell::new(false),
    }));
    (Sender { chan }, Receiver { chan })
}

impl<T> Chan<T> {
    #[allow(clippy::mut_from_ref)]
    fn buf(&self) -> &mut Fifo<T> {
        // SAFETY: single task, no re-entrancy, references never escape a call.
        unsafe { &mut *self.buf.get() }
    }
    fn wake_rx(&self) {
        if self.rx_waiting.get() {
            self.rx_waiting.set(false);
            crate::model::wake();
        }
    }
    fn wake_txs(&self) {
        if self.tx_waiting.get() {
            self.tx_waiting.set(false);
            crate::model::wake();
        }
    }
}

impl<T> Sender<T> {
    pub fn try_send(&self, value: T) -> Result<(), TrySendError<T>> {
        let c = self.c();
        if c.rx_closed.get() {
            return Err(TrySendError::Closed(value));
        }
        if c.buf().len() >= c.cap {
            return Err(TrySendError::Full(value));
        }
        c.buf().push_back(value);
        c.wake_rx();
        Ok(())
    }
    pub fn send(&self, value: T) -> SendFut<'_, T> {
        SendFut {
            tx: self,
            value: Some(value),
        }
    }
    pub fn is_closed(&self) -> bool {
        self.c().rx_closed.get()
    }
    pub fn capacity(&self) -> usize {
        self.c().cap - self.c().buf().len()
    }
    pub fn max_capacity(&self) -> usize {
        self.c().cap
    }
    pub fn same_channel(&self, other: &Self) -> bool {
        core::ptr::eq(self.chan, other.chan)
    }
}
pub struct SendFut<'a, T> {
    tx: &'a Sender<T>,
    value: Option<T>,
}
impl<'a, T> Unpin for SendFut<'a, T> {}
impl<'a, T> Future for SendFut<'a, T> {
    type Output = Result<(), SendError<T>>;
    fn poll(mut self: Pin<&mut Self>, _cx: &mut Context<'_>) -> Poll<Self::Output> {
        let this = &mut *self;
        let c = this.tx.c();
        if c.rx_closed.get() {
            let v = this.value.take().expect("polled after completion");
            return Poll::Ready(Err(SendError(v)));
        }
        if c.buf().len() >= c.cap {
            c.tx_waiting.set(true);
            return Poll::Pending;
        }
        let v = this.value.take().expect("polled after completion");
        c.buf().push_back(v);
        c.wake_rx();
        Poll::Ready(Ok(()))
    }
}
impl<T> Clone for Sender<T> {
    fn clone(&self) -> Self {
        self.c().tx_count.set(self.c().tx_count.get() + 1);
        Sender { chan: self.chan }
    }
}
impl<T> Drop for Sender<T> {
    fn drop(&mut self) {
        let n = self.c().tx_count.get() - 1;
        self.c().tx_count.set(n);
        if n == 0 {
            self.c().wake_rx();
        }
    }
}

impl<T> Receiver<T> {
    pub fn poll_recv(&mut self, _cx: &mut Context<'_>) -> Poll<Option<T>> {
        let c = self.c();
        let v = c.buf().pop_front();
        match v {
            Some(v) => {
                c.wake_txs();
                Poll::Ready(Some(v))
            }
            None => {
                if c.tx_count.get() == 0 || c.rx_closed.get() {
                    Poll::Ready(None)
                } else {
                    c.rx_waiting.set(true);
                    Poll::Pending
                }
            }
        }
    }
    pub fn try_recv(&mut self) -> Result<T, TryRecvError> {
        let c = self.c();
        let v = c.buf().pop_front();
        match v {
            Some(v) => {
                c.wake_txs();
                Ok(v)
            }
            None => {
                if c.tx_count.get() == 0 || c.rx_closed.get() {
                    Err(TryRecvError::Disconnected)
                } else {
                    Err(TryRecvError::Empty)
                }
            }
        }
    }
    pub fn recv(&mut self) -> RecvFut<'_, T> {
        RecvFut { rx: self }
    }
    pub fn len(&self) -> usize {
        self.c().buf().len()
    }
    pub fn is_empty(&self) -> bool {
        self.c().buf().len() == 0
    }
    pub fn is_closed(&self) -> bool {
        self.c().rx_closed.get() || self.c().tx_count.get() == 0
    }
    pub fn capacity(&self) -> usize {
        self.c().cap - self.c().buf().len()
    }
    pub fn max_capacity(&self) -> usize {
        self.c().cap
    }
    pub fn close(&mut self) {
        self.c().rx_closed.set(true);
        self.c().wake_txs();
    }
}
pub struct RecvFut<'a, T> {
    rx: &'a mut Receiver<T>,
}
impl<'a, T> Future for RecvFut<'a, T> {
    type Output = Option<T>;
    fn poll(mut self: Pin<&mut Self>, cx: &mut Context<'_>) -> Poll<Option<T>> {
        self.rx.poll_recv(cx)
    }
}
impl<T> Drop for Receiver<T> {
    fn drop(&mut self) {
        self.c().rx_closed.set(true);
        // the receiver's waker goes away with it (conformance: the real channel
        // does not wake anybody when the last sender drops after the receiver)
        self.c().rx_waiting.set(false);
        self.c().buf().clear();
        self.c().wake_txs();
    }
}
