//! Async RwLock MODEL: reader count + writer flag + a `waiting` flag (single
//! task: see `crate::model`).
use std::cell::{Cell, UnsafeCell};
use std::future::Future;
use std::ops::{Deref, DerefMut};
use std::pin::Pin;
use std::task::{Context, Poll};

#[derive(Debug)]
pub struct TryLockError(());

pub struct RwLock<T> {
    readers: Cell<usize>,
    writer: Cell<bool>,
    waiting: Cell<bool>,
    value: UnsafeCell<T>,
}
unsafe impl<T: Send> Send for RwLock<T> {}
unsafe impl<T: Send + Sync> Sync for RwLock<T> {}
impl<T> std::fmt::Debug for RwLock<T> {
    fn fmt(&self, f: &mut std::fmt::Formatter<'_>) -> std::fmt::Result {
        f.write_str("RwLock")
    }
}
impl<T> RwLock<T> {
    pub fn new(value: T) -> Self {
        RwLock {
            readers: Cell::new(0),
            writer: Cell::new(false),
            waiting: Cell::new(false),
            value: UnsafeCell::new(value),
        }
    }
    fn wake_all(&self) {
        if self.waiting.get() {
            self.waiting.set(false);
            crate::model::wake();
        }
    }
    pub fn read(&self) -> ReadFut<'_, T> {
        ReadFut { l: self }
    }
    pub fn write(&self) -> WriteFut<'_, T> {
        WriteFut { l: self }
    }
    pub fn try_read(&self) -> Result<RwLockReadGuard<'_, T>, TryLockError> {
        if self.writer.get() {
            Err(TryLockError(()))
        } else {
            self.readers.set(self.readers.get() + 1);
            Ok(RwLockReadGuard { l: self })
        }
    }
    pub fn try_write(&self) -> Result<RwLockWriteGuard<'_, T>, TryLockError> {
        if self.writer.get() || self.readers.get() > 0 {
            Err(TryLockError(()))
        } else {
            self.writer.set(true);
            Ok(RwLockWriteGuard { l: self })
        }
    }
    pub fn into_inner(self) -> T {
        self.value.into_inner()
    }
    pub fn get_mut(&mut self) -> &mut T {
        self.value.get_mut()
    }
}
pub struct ReadFut<'a, T> {
    l: &'a RwLock<T>,
}
impl<'a, T> Future for ReadFut<'a, T> {
    type Output = RwLockReadGuard<'a, T>;
    fn poll(self: Pin<&mut Self>, _cx: &mut Context<'_>) -> Poll<Self::Output> {
        match self.l.try_read() {
            Ok(g) => Poll::Ready(g),
            Err(_) => {
                self.l.waiting.set(true);
                Poll::Pending
            }
        }
    }
}
pub struct WriteFut<'a, T> {
    l: &'a RwLock<T>,
}
impl<'a, T> Future for WriteFut<'a, T> {
    type Output = RwLockWriteGuard<'a, T>;
    fn poll(self: Pin<&mut Self>, _cx: &mut Context<'_>) -> Poll<Self::Output> {
        match self.l.try_write() {
            Ok(g) => Poll::Ready(g),
            Err(_) => {
                self.l.waiting.set(true);
                Poll::Pending
            }
        }
    }
}
pub struct RwLockReadGuard<'a, T> {
    l: &'a RwLock<T>,
}
impl<'a, T> Deref for RwLockReadGuard<'a, T> {
    type Target = T;
    fn deref(&self) -> &T {
        unsafe { &*self.l.value.get() }
    }
}
impl<'a, T> Drop for RwLockReadGuard<'a, T> {
    fn drop(&mut self) {
        self.l.readers.set(self.l.readers.get() - 1);
        if self.l.readers.get() == 0 {
            self.l.wake_all();
        }
    }
}
pub struct RwLockWriteGuard<'a, T> {
    l: &'a RwLock<T>,
}
impl<'a, T> Deref for RwLockWriteGuard<'a, T> {
    type Target = T;
    fn deref(&self) -> &T {
        unsafe { &*self.l.value.get() }
    }
}
impl<'a, T> DerefMut for RwLockWriteGuard<'a, T> {
    fn deref_mut(&mut self) -> &mut T {
        unsafe { &mut *self.l.value.get() }
    }
}
impl<'a, T> Drop for RwLockWriteGuard<'a, T> {
    fn drop(&mut self) {
        self.l.writer.set(false);
        self.l.wake_all();
    }
}
