pub mod mpsc;
mod rwlock;
pub use rwlock::{RwLock, RwLockReadGuard, RwLockWriteGuard, TryLockError};
