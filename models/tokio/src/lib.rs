//! Verification MODEL of the parts of `tokio::sync` that fn_graph and
//! interruptible use. Single task, no threads: state lives in `Rc<..Cell..>`.
pub mod sync;
pub mod model;
