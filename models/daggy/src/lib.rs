//! Verification MODEL of the subset of daggy 0.9 / petgraph 0.8 that fn_graph
//! uses. Flat edge list, linear scans, storage reserved once (no re-allocation).
//! Iteration orders mirror petgraph: adjacency walks yield the most recently
//! added edge first; `Topo` follows petgraph's algorithm literally.
use core::fmt::Debug;
use core::hash::Hash;
use core::marker::PhantomData;
use core::ops::{Index, IndexMut};

#[cfg(feature = "max2")]
pub const MAX_NODES: usize = 2;
#[cfg(all(feature = "max3", not(feature = "max2")))]
pub const MAX_NODES: usize = 3;
#[cfg(all(feature = "max4", not(any(feature = "max2", feature = "max3"))))]
pub const MAX_NODES: usize = 4;
#[cfg(all(feature = "max5", not(any(feature = "max2", feature = "max3", feature = "max4"))))]
pub const MAX_NODES: usize = 5;
#[cfg(not(any(feature = "max2", feature = "max3", feature = "max4", feature = "max5")))]
pub const MAX_NODES: usize = 3;
/// Room for every edge of a simple DAG plus two parallel edges, so that code
/// which (wrongly) adds duplicate edges fails its own oracle before it trips
/// the model bound.
pub const MAX_EDGES: usize = MAX_NODES * (MAX_NODES - 1) / 2 + 2;
/// Per-node adjacency list capacity.
pub const ADJ: usize = MAX_NODES;

pub unsafe trait IndexType: Copy + Default + Hash + Ord + Debug + 'static {
    fn new(x: usize) -> Self;
    fn index(&self) -> usize;
    fn max() -> Self;
}
unsafe impl IndexType for u32 {
    fn new(x: usize) -> Self {
        x as u32
    }
    fn index(&self) -> usize {
        *self as usize
    }
    fn max() -> Self {
        u32::MAX
    }
}

#[derive(Clone, Copy, Debug, Default, PartialEq, Eq, PartialOrd, Ord, Hash)]
pub struct NodeIndex<Ix = u32>(Ix);
impl<Ix: IndexType> NodeIndex<Ix> {
    pub fn new(x: usize) -> Self {
        NodeIndex(Ix::new(x))
    }
    pub fn index(self) -> usize {
        self.0.index()
    }
    pub fn end() -> Self {
        NodeIndex(<Ix as IndexType>::max())
    }
}
#[derive(Clone, Copy, Debug, Default, PartialEq, Eq, PartialOrd, Ord, Hash)]
pub struct EdgeIndex<Ix = u32>(Ix);
impl<Ix: IndexType> EdgeIndex<Ix> {
    pub fn new(x: usize) -> Self {
        EdgeIndex(Ix::new(x))
    }
    pub fn index(self) -> usize {
        self.0.index()
    }
    pub fn end() -> Self {
        EdgeIndex(<Ix as IndexType>::max())
    }
}

#[derive(Clone, Debug)]
pub struct Node<N, Ix> {
    pub weight: N,
    _ix: PhantomData<Ix>,
}
#[derive(Clone, Debug)]
pub struct Edge<E, Ix> {
    pub weight: E,
    node: [NodeIndex<Ix>; 2],
}
impl<E, Ix: IndexType> Edge<E, Ix> {
    pub fn source(&self) -> NodeIndex<Ix> {
        self.node[0]
    }
    pub fn target(&self) -> NodeIndex<Ix> {
        self.node[1]
    }
}

#[derive(Debug, Clone, Copy, PartialEq, Eq)]
pub struct WouldCycle<E>(pub E);

/// The graph structure lives in plain `u8` arrays (endpoints, adjacency lists,
/// reachability) so that every walk, topological sort and cycle test is array
/// arithmetic over small integers; node and edge weights live in `Vec`s whose
/// storage is reserved once and which only `raw_nodes` / `raw_edges` /
/// indexing touch.
#[derive(Clone, Debug)]
pub struct Dag<N, E, Ix = u32> {
    nodes: Vec<Node<N, Ix>>,
    edges: Vec<Edge<E, Ix>>,
    n_nodes: u8,
    n_edges: u8,
    e_src: [u8; MAX_EDGES],
    e_dst: [u8; MAX_EDGES],
    /// out_e[n][k] / in_e[n][k]: edge indices in insertion order.
    out_e: [[u8; ADJ]; MAX_NODES],
    out_n: [u8; MAX_NODES],
    in_e: [[u8; ADJ]; MAX_NODES],
    in_n: [u8; MAX_NODES],
    /// reach[a] bit b: there is a path a ->* b (reflexive).
    reach: [u16; MAX_NODES],
}
/// `Vec::push` into storage that was reserved up front: no capacity test, hence
/// no grow / realloc path for the symbolic executor to follow. The callers
/// assert the model bound (`len < capacity`) first.
fn push_reserved<T>(v: &mut Vec<T>, item: T) {
    let len = v.len();
    assert!(len < v.capacity(), "model bound exceeded: reserved storage");
    // SAFETY: len < capacity, the slot is uninitialised and owned by `v`.
    unsafe {
        core::ptr::write(v.as_mut_ptr().add(len), item);
        v.set_len(len + 1);
    }
}

pub type RawNodes<'a, N, Ix> = &'a [Node<N, Ix>];
pub type RawEdges<'a, E, Ix> = &'a [Edge<E, Ix>];

impl<N, E, Ix: IndexType> Default for Dag<N, E, Ix> {
    fn default() -> Self {
        Self::new()
    }
}

impl<N, E, Ix: IndexType> Dag<N, E, Ix> {
    pub fn new() -> Self {
        let mut reach = [0u16; MAX_NODES];
        let mut i = 0;
        while i < MAX_NODES {
            reach[i] = 1 << i;
            i += 1;
        }
        Dag {
            nodes: Vec::with_capacity(MAX_NODES),
            edges: Vec::with_capacity(MAX_EDGES),
            n_nodes: 0,
            n_edges: 0,
            e_src: [0; MAX_EDGES],
            e_dst: [0; MAX_EDGES],
            out_e: [[0; ADJ]; MAX_NODES],
            out_n: [0; MAX_NODES],
            in_e: [[0; ADJ]; MAX_NODES],
            in_n: [0; MAX_NODES],
            reach,
        }
    }
    pub fn with_capacity(_n: usize, _e: usize) -> Self {
        Self::new()
    }
    pub fn node_count(&self) -> usize {
        self.n_nodes as usize
    }
    pub fn edge_count(&self) -> usize {
        self.n_edges as usize
    }
    pub(crate) fn reach_bit(&self, a: usize, b: usize) -> bool {
        self.reach[a] & (1 << b) != 0
    }
    pub fn graph(&self) -> &Self {
        self
    }
    pub fn node_indices(&self) -> NodeIndices<Ix> {
        NodeIndices { r: 0..self.n_nodes as usize, _ix: PhantomData }
    }
    pub fn add_node(&mut self, weight: N) -> NodeIndex<Ix> {
        assert!((self.n_nodes as usize) < MAX_NODES, "model bound exceeded: MAX_NODES");
        push_reserved(&mut self.nodes, Node { weight, _ix: PhantomData });
        self.n_nodes += 1;
        NodeIndex::new(self.n_nodes as usize - 1)
    }
    pub fn find_edge(&self, a: NodeIndex<Ix>, b: NodeIndex<Ix>) -> Option<EdgeIndex<Ix>> {
        // petgraph walks a's outgoing list most recent first and returns the
        // first match, i.e. the most recently added a -> b edge.
        if a.index() >= self.n_nodes as usize {
            return None;
        }
        let mut found = None;
        let mut k = 0;
        while k < ADJ {
            if k < self.out_n[a.index()] as usize {
                let ei = self.out_e[a.index()][k] as usize;
                if self.e_dst[ei] as usize == b.index() {
                    found = Some(EdgeIndex::new(ei));
                }
            }
            k += 1;
        }
        found
    }
    pub fn add_edge(&mut self, a: NodeIndex<Ix>, b: NodeIndex<Ix>, weight: E) -> Result<EdgeIndex<Ix>, WouldCycle<E>> {
        // petgraph panics when either index is out of bounds.
        assert!(a.index() < self.n_nodes as usize && b.index() < self.n_nodes as usize, "Graph::add_edge: node indices out of bounds");
        if petgraph::algo::has_path_connecting(&*self, b, a, None) {
            return Err(WouldCycle(weight));
        }
        let (ai, bi) = (a.index(), b.index());
        assert!((self.n_edges as usize) < MAX_EDGES, "model bound exceeded: MAX_EDGES");
        assert!((self.out_n[ai] as usize) < ADJ && (self.in_n[bi] as usize) < ADJ, "model bound exceeded: ADJ");
        push_reserved(&mut self.edges, Edge { weight, node: [a, b] });
        let ei = self.n_edges as usize;
        self.n_edges += 1;
        self.e_src[ei] = ai as u8;
        self.e_dst[ei] = bi as u8;
        self.out_e[ai][self.out_n[ai] as usize] = ei as u8;
        self.out_n[ai] += 1;
        self.in_e[bi][self.in_n[bi] as usize] = ei as u8;
        self.in_n[bi] += 1;
        let rb = self.reach[bi];
        let mut i = 0;
        while i < MAX_NODES {
            if self.reach[i] & (1 << ai) != 0 {
                self.reach[i] |= rb;
            }
            i += 1;
        }
        Ok(EdgeIndex::new(ei))
    }
    /// daggy: add all edges, then check once for a cycle; on a cycle remove them
    /// again and return their weights in reverse order.
    pub fn add_edges<I>(&mut self, edges: I) -> Result<EdgeIndices<Ix>, WouldCycle<Vec<E>>>
    where
        I: IntoIterator<Item = (NodeIndex<Ix>, NodeIndex<Ix>, E)>,
    {
        let first = self.n_edges as usize;
        let mut cyclic = false;
        for (a, b, weight) in edges {
            assert!(a.index() < self.n_nodes as usize && b.index() < self.n_nodes as usize, "Graph::add_edge: node indices out of bounds");
            if petgraph::algo::has_path_connecting(&*self, b, a, None) {
                cyclic = true;
            }
            self.push_edge_unchecked(a, b, weight);
        }
        if cyclic {
            let mut removed = Vec::new();
            while self.n_edges as usize > first {
                if let Some(e) = self.edges.pop() {
                    removed.push(e.weight);
                }
                self.n_edges -= 1;
            }
            self.rebuild_structure();
            return Err(WouldCycle(removed));
        }
        Ok(EdgeIndices { r: first..self.n_edges as usize, _ix: PhantomData })
    }
    fn push_edge_unchecked(&mut self, a: NodeIndex<Ix>, b: NodeIndex<Ix>, weight: E) {
        let (ai, bi) = (a.index(), b.index());
        assert!((self.n_edges as usize) < MAX_EDGES, "model bound exceeded: MAX_EDGES");
        assert!((self.out_n[ai] as usize) < ADJ && (self.in_n[bi] as usize) < ADJ, "model bound exceeded: ADJ");
        push_reserved(&mut self.edges, Edge { weight, node: [a, b] });
        let ei = self.n_edges as usize;
        self.n_edges += 1;
        self.e_src[ei] = ai as u8;
        self.e_dst[ei] = bi as u8;
        self.out_e[ai][self.out_n[ai] as usize] = ei as u8;
        self.out_n[ai] += 1;
        self.in_e[bi][self.in_n[bi] as usize] = ei as u8;
        self.in_n[bi] += 1;
        let rb = self.reach[bi];
        let mut i = 0;
        while i < MAX_NODES {
            if self.reach[i] & (1 << ai) != 0 {
                self.reach[i] |= rb;
            }
            i += 1;
        }
    }
    /// Recomputes adjacency lists and reachability from the first `n_edges` edges.
    fn rebuild_structure(&mut self) {
        self.out_n = [0; MAX_NODES];
        self.in_n = [0; MAX_NODES];
        let mut i = 0;
        while i < MAX_NODES {
            self.reach[i] = 1 << i;
            i += 1;
        }
        let mut e = 0;
        while e < MAX_EDGES {
            if e < self.n_edges as usize {
                let (ai, bi) = (self.e_src[e] as usize, self.e_dst[e] as usize);
                self.out_e[ai][self.out_n[ai] as usize] = e as u8;
                self.out_n[ai] += 1;
                self.in_e[bi][self.in_n[bi] as usize] = e as u8;
                self.in_n[bi] += 1;
                let rb = self.reach[bi];
                let mut i = 0;
                while i < MAX_NODES {
                    if self.reach[i] & (1 << ai) != 0 {
                        self.reach[i] |= rb;
                    }
                    i += 1;
                }
            }
            e += 1;
        }
    }
    pub fn edge_weight_mut(&mut self, e: EdgeIndex<Ix>) -> Option<&mut E> {
        self.edges.get_mut(e.index()).map(|e| &mut e.weight)
    }
    pub fn update_edge(&mut self, a: NodeIndex<Ix>, b: NodeIndex<Ix>, weight: E) -> Result<EdgeIndex<Ix>, WouldCycle<E>> {
        if let Some(ix) = self.find_edge(a, b) {
            self.edges[ix.index()].weight = weight;
            return Ok(ix);
        }
        self.add_edge(a, b, weight)
    }
    pub fn edge_weight(&self, e: EdgeIndex<Ix>) -> Option<&E> {
        self.edges.get(e.index()).map(|e| &e.weight)
    }
    pub fn edge_endpoints(&self, e: EdgeIndex<Ix>) -> Option<(NodeIndex<Ix>, NodeIndex<Ix>)> {
        self.edges.get(e.index()).map(|e| (e.node[0], e.node[1]))
    }
    pub fn node_weight(&self, n: NodeIndex<Ix>) -> Option<&N> {
        self.nodes.get(n.index()).map(|n| &n.weight)
    }
    pub fn node_weight_mut(&mut self, n: NodeIndex<Ix>) -> Option<&mut N> {
        self.nodes.get_mut(n.index()).map(|n| &mut n.weight)
    }
    pub fn raw_nodes(&self) -> RawNodes<'_, N, Ix> {
        &self.nodes
    }
    pub fn raw_edges(&self) -> RawEdges<'_, E, Ix> {
        &self.edges
    }
    pub fn node_weights_mut(&mut self) -> NodeWeightsMut<'_, N, Ix> {
        NodeWeightsMut { it: self.nodes.iter_mut() }
    }
    pub fn children(&self, parent: NodeIndex<Ix>) -> Children<N, E, Ix> {
        Children { node: parent, k: 0, _m: PhantomData }
    }
    pub fn parents(&self, child: NodeIndex<Ix>) -> Parents<N, E, Ix> {
        Parents { node: child, k: 0, _m: PhantomData }
    }
}
impl<N, E, Ix: IndexType> Index<NodeIndex<Ix>> for Dag<N, E, Ix> {
    type Output = N;
    fn index(&self, i: NodeIndex<Ix>) -> &N {
        &self.nodes[i.index()].weight
    }
}
impl<N, E, Ix: IndexType> IndexMut<NodeIndex<Ix>> for Dag<N, E, Ix> {
    fn index_mut(&mut self, i: NodeIndex<Ix>) -> &mut N {
        &mut self.nodes[i.index()].weight
    }
}

pub struct EdgeIndices<Ix> {
    r: core::ops::Range<usize>,
    _ix: PhantomData<Ix>,
}
impl<Ix: IndexType> Iterator for EdgeIndices<Ix> {
    type Item = EdgeIndex<Ix>;
    fn next(&mut self) -> Option<Self::Item> {
        self.r.next().map(EdgeIndex::new)
    }
}
pub struct NodeIndices<Ix> {
    r: core::ops::Range<usize>,
    _ix: PhantomData<Ix>,
}
impl<Ix: IndexType> Iterator for NodeIndices<Ix> {
    type Item = NodeIndex<Ix>;
    fn next(&mut self) -> Option<Self::Item> {
        self.r.next().map(NodeIndex::new)
    }
}
pub struct NodeWeightsMut<'a, N: 'a, Ix: 'a = u32> {
    it: core::slice::IterMut<'a, Node<N, Ix>>,
}
impl<'a, N, Ix> Iterator for NodeWeightsMut<'a, N, Ix> {
    type Item = &'a mut N;
    fn next(&mut self) -> Option<&'a mut N> {
        self.it.next().map(|n| &mut n.weight)
    }
}

/// petgraph::visit::Walker
pub trait Walker<Context> {
    type Item;
    fn walk_next(&mut self, context: Context) -> Option<Self::Item>;
    fn iter(self, context: Context) -> WalkerIter<Self, Context>
    where
        Self: Sized,
        Context: Clone,
    {
        WalkerIter { walker: self, context }
    }
}
pub struct WalkerIter<W, C> {
    walker: W,
    context: C,
}
impl<W, C> Iterator for WalkerIter<W, C>
where
    W: Walker<C>,
    C: Clone,
{
    type Item = W::Item;
    fn next(&mut self) -> Option<Self::Item> {
        self.walker.walk_next(self.context.clone())
    }
}

/// Walkers count their steps with `k` (starting from the constant 0) so that
/// the end of the walk after at most `ADJ` items is visible to constant
/// propagation: loops over a walker unwind `ADJ + 1` times, not to the global bound.
pub struct Children<N, E, Ix> {
    node: NodeIndex<Ix>,
    k: usize,
    _m: PhantomData<(N, E)>,
}
impl<'a, N, E, Ix: IndexType> Walker<&'a Dag<N, E, Ix>> for Children<N, E, Ix> {
    type Item = (EdgeIndex<Ix>, NodeIndex<Ix>);
    fn walk_next(&mut self, dag: &'a Dag<N, E, Ix>) -> Option<Self::Item> {
        if self.k >= ADJ {
            return None;
        }
        let n = dag.out_n[self.node.index()] as usize;
        if self.k >= n {
            return None;
        }
        // most recently added edge first
        let ei = dag.out_e[self.node.index()][n - 1 - self.k] as usize;
        self.k += 1;
        Some((EdgeIndex::new(ei), NodeIndex::new(dag.e_dst[ei] as usize)))
    }
}
pub struct Parents<N, E, Ix> {
    node: NodeIndex<Ix>,
    k: usize,
    _m: PhantomData<(N, E)>,
}
impl<'a, N, E, Ix: IndexType> Walker<&'a Dag<N, E, Ix>> for Parents<N, E, Ix> {
    type Item = (EdgeIndex<Ix>, NodeIndex<Ix>);
    fn walk_next(&mut self, dag: &'a Dag<N, E, Ix>) -> Option<Self::Item> {
        if self.k >= ADJ {
            return None;
        }
        let n = dag.in_n[self.node.index()] as usize;
        if self.k >= n {
            return None;
        }
        let ei = dag.in_e[self.node.index()][n - 1 - self.k] as usize;
        self.k += 1;
        Some((EdgeIndex::new(ei), NodeIndex::new(dag.e_src[ei] as usize)))
    }
}

pub mod petgraph {
    pub mod graph {
        pub use crate::{EdgeIndex, IndexType, NodeIndex};
        use crate::{Dag, Node};
        pub struct NodeReferences<'a, N: 'a, Ix: IndexType = u32> {
            pub(crate) it: core::iter::Enumerate<core::slice::Iter<'a, Node<N, Ix>>>,
        }
        impl<'a, N, Ix: IndexType> Iterator for NodeReferences<'a, N, Ix> {
            type Item = (NodeIndex<Ix>, &'a N);
            fn next(&mut self) -> Option<Self::Item> {
                self.it.next().map(|(i, n)| (NodeIndex::new(i), &n.weight))
            }
            fn size_hint(&self) -> (usize, Option<usize>) {
                self.it.size_hint()
            }
        }
        impl<'a, N, Ix: IndexType> DoubleEndedIterator for NodeReferences<'a, N, Ix> {
            fn next_back(&mut self) -> Option<Self::Item> {
                self.it.next_back().map(|(i, n)| (NodeIndex::new(i), &n.weight))
            }
        }
        impl<'a, N, Ix: IndexType> ExactSizeIterator for NodeReferences<'a, N, Ix> {}
        impl<N, E, Ix: IndexType> Dag<N, E, Ix> {
            pub fn node_references(&self) -> NodeReferences<'_, N, Ix> {
                NodeReferences { it: self.nodes.iter().enumerate() }
            }
        }
    }
    pub mod visit {
        pub use crate::Walker;
        use crate::{Dag, IndexType, NodeIndex, ADJ, MAX_EDGES, MAX_NODES};
        /// Present so `use ...::IntoNodeReferences` compiles; the method is inherent in the model.
        pub trait IntoNodeReferences {}
        impl<'a, N, E, Ix: IndexType> IntoNodeReferences for &'a Dag<N, E, Ix> {}

        /// `petgraph::visit::Reversed`: the same graph with every edge reversed.
        #[derive(Clone, Copy, Debug)]
        pub struct Reversed<G>(pub G);

        /// What `Topo` needs from a graph (implemented for `&Dag` and `Reversed<&Dag>`).
        pub trait TopoGraph: Copy {
            type Ix: IndexType;
            fn node_count(&self) -> usize;
            fn in_degree(&self, n: usize) -> usize;
            /// k-th incoming neighbour in insertion order.
            fn in_neighbor(&self, n: usize, k: usize) -> usize;
            fn out_degree(&self, n: usize) -> usize;
            /// k-th outgoing neighbour in insertion order.
            fn out_neighbor(&self, n: usize, k: usize) -> usize;
        }
        impl<'a, N, E, Ix: IndexType> TopoGraph for &'a Dag<N, E, Ix> {
            type Ix = Ix;
            fn node_count(&self) -> usize {
                Dag::node_count(self)
            }
            fn in_degree(&self, n: usize) -> usize {
                self.in_n[n] as usize
            }
            fn in_neighbor(&self, n: usize, k: usize) -> usize {
                self.e_src[self.in_e[n][k] as usize] as usize
            }
            fn out_degree(&self, n: usize) -> usize {
                self.out_n[n] as usize
            }
            fn out_neighbor(&self, n: usize, k: usize) -> usize {
                self.e_dst[self.out_e[n][k] as usize] as usize
            }
        }
        impl<'a, N, E, Ix: IndexType> TopoGraph for Reversed<&'a Dag<N, E, Ix>> {
            type Ix = Ix;
            fn node_count(&self) -> usize {
                Dag::node_count(self.0)
            }
            fn in_degree(&self, n: usize) -> usize {
                self.0.out_n[n] as usize
            }
            fn in_neighbor(&self, n: usize, k: usize) -> usize {
                self.0.e_dst[self.0.out_e[n][k] as usize] as usize
            }
            fn out_degree(&self, n: usize) -> usize {
                self.0.in_n[n] as usize
            }
            fn out_neighbor(&self, n: usize, k: usize) -> usize {
                self.0.e_src[self.0.in_e[n][k] as usize] as usize
            }
        }

        #[derive(Clone, Debug)]
        pub struct Topo<N, VM> {
            tovisit: [u8; MAX_NODES + MAX_EDGES],
            ntovisit: u8,
            ordered: [bool; MAX_NODES],
            _m: core::marker::PhantomData<(N, VM)>,
        }
        fn has_incoming_unordered<G: TopoGraph>(g: G, n: usize, ordered: &[bool; MAX_NODES]) -> bool {
            let mut r = false;
            let mut k = 0;
            while k < ADJ {
                if k < g.in_degree(n) && !ordered[g.in_neighbor(n, k)] {
                    r = true;
                }
                k += 1;
            }
            r
        }
        impl<Ix: IndexType> Topo<NodeIndex<Ix>, fixedbitset::FixedBitSet> {
            /// petgraph: the initial stack holds every node without incoming
            /// edges, in index order.
            pub fn new<G: TopoGraph<Ix = Ix>>(g: G) -> Self {
                let mut t = Topo { tovisit: [0; MAX_NODES + MAX_EDGES], ntovisit: 0, ordered: [false; MAX_NODES], _m: core::marker::PhantomData };
                let mut i = 0;
                while i < MAX_NODES {
                    if i < g.node_count() && g.in_degree(i) == 0 {
                        t.tovisit[t.ntovisit as usize] = i as u8;
                        t.ntovisit += 1;
                    }
                    i += 1;
                }
                t
            }
            /// petgraph: pop until an unvisited node is found, mark it, push
            /// every neighbour (most recent edge first) all of whose incoming
            /// neighbours are visited, return the node.
            pub fn next<G: TopoGraph<Ix = Ix>>(&mut self, g: G) -> Option<NodeIndex<Ix>> {
                // at most one pop per stack slot; the constant bound keeps the
                // loop's unwinding independent of the global bound
                let mut pops = 0;
                while pops < MAX_NODES && self.ntovisit > 0 {
                    pops += 1;
                    self.ntovisit -= 1;
                    let nix = self.tovisit[self.ntovisit as usize] as usize;
                    if self.ordered[nix] {
                        continue;
                    }
                    self.ordered[nix] = true;
                    let mut k = ADJ;
                    while k > 0 {
                        k -= 1;
                        if k < g.out_degree(nix) {
                            let c = g.out_neighbor(nix, k);
                            if !has_incoming_unordered(g, c, &self.ordered) {
                                self.tovisit[self.ntovisit as usize] = c as u8;
                                self.ntovisit += 1;
                            }
                        }
                    }
                    return Some(NodeIndex::new(nix));
                }
                assert!(self.ntovisit == 0, "model bound exceeded: Topo stack holds more stale entries than nodes");
                None
            }
        }
        impl<G: TopoGraph> Walker<G> for Topo<NodeIndex<G::Ix>, fixedbitset::FixedBitSet> {
            type Item = NodeIndex<G::Ix>;
            fn walk_next(&mut self, g: G) -> Option<NodeIndex<G::Ix>> {
                self.next(g)
            }
        }
    }
    pub mod algo {
        use crate::{Dag, IndexType, NodeIndex};
        pub struct DfsSpace;
        pub fn has_path_connecting<N, E, Ix: IndexType>(g: &Dag<N, E, Ix>, from: NodeIndex<Ix>, to: NodeIndex<Ix>, _space: Option<&mut DfsSpace>) -> bool {
            g.reach_bit(from.index(), to.index())
        }
    }
}

/// serde: `fn_graph::GraphInfo` derives Serialize / Deserialize over its `Dag`
/// field, so the impls must exist; the model never (de)serialises.
#[cfg(feature = "serde-1")]
impl<N, E, Ix> serde::Serialize for Dag<N, E, Ix> {
    fn serialize<S: serde::Serializer>(&self, _s: S) -> Result<S::Ok, S::Error> {
        unimplemented!("verification model: Dag is not serialised")
    }
}
#[cfg(feature = "serde-1")]
impl<'de, N, E, Ix> serde::Deserialize<'de> for Dag<N, E, Ix> {
    fn deserialize<D: serde::Deserializer<'de>>(_d: D) -> Result<Self, D::Error> {
        unimplemented!("verification model: Dag is not deserialised")
    }
}
