//! replay <harness> <hex bytes>: runs one harness natively against the real
//! dependencies with the nondeterministic values of a solver counterexample.
//! Prints one JSON line: {"harness":..,"panic":<message|null>,"consumed":n,"given":m,"covered":[..]}

use std::panic;

fn main() {
    let args: Vec<String> = std::env::args().collect();
    if args.len() < 3 {
        eprintln!("usage: replay <harness> <hex bytes>");
        std::process::exit(2);
    }
    let name = args[1].clone();
    let hex = args[2].trim();
    let bytes: Vec<u8> = (0..hex.len() / 2).map(|i| u8::from_str_radix(&hex[2 * i..2 * i + 2], 16).expect("hex")).collect();
    let given = bytes.len();
    fgv::nd::replay::load(bytes);
    panic::set_hook(Box::new(|_| {}));
    let r = panic::catch_unwind(|| fgv::harnesses::run(&name));
    let (known, msg) = match r {
        Ok(k) => (k, None),
        Err(e) => {
            let m = if let Some(s) = e.downcast_ref::<&str>() {
                s.to_string()
            } else if let Some(s) = e.downcast_ref::<String>() {
                s.clone()
            } else {
                "non-string panic".to_string()
            };
            (true, Some(m))
        }
    };
    if !known {
        eprintln!("unknown harness {name} in this build");
        std::process::exit(2);
    }
    let (consumed, _) = fgv::nd::replay::consumed();
    let esc = |s: &str| s.replace('\\', "\\\\").replace('"', "\\\"").replace('\n', " ");
    let covered: Vec<String> = fgv::nd::replay::covered_list().iter().map(|c| format!("\"{}\"", esc(c))).collect();
    let trace: Vec<String> = fgv::nd::replay::log_list().iter().map(|c| format!("\"{}\"", esc(c))).collect();
    println!(
        "{{\"harness\":\"{}\",\"panic\":{},\"consumed\":{},\"given\":{},\"covered\":[{}],\"trace\":[{}]}}",
        esc(&name),
        match &msg {
            Some(m) => format!("\"{}\"", esc(m)),
            None => "null".to_string(),
        },
        consumed,
        given,
        covered.join(","),
        trace.join(",")
    );
}
