//! Kani harnesses for fn_graph. See /verif/DESIGN.md.
//!
//! The same sources build three ways:
//! * `cargo kani` in /verif/harness       - fn_graph against the dependency models
//! * `cargo build` in /verif/harness      - the same natively (model sanity)
//! * `cargo build` in /verif/harness-real - fn_graph against the real crates,
//!   replaying solver counterexamples

#![cfg_attr(kani, feature(allocator_api))]

pub mod exec;
pub mod graphs;
pub mod nd;
pub mod run;
pub mod stream;
pub mod build;
pub mod stubs;
pub mod queuer;
pub mod shapes;
pub mod harnesses;
pub mod iter;
pub mod outcome;
#[cfg(feature = "interruptible")]
pub mod track;
#[cfg(feature = "interruptible")]
pub mod stream_int;
#[cfg(feature = "graph_info")]
pub mod ginfo;
pub mod stubs_c18;
