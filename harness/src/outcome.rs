//! Unit harnesses for the synchronous pieces behind C09:
//! `StreamOutcome::new` (complement in insertion order) and
//! `stream_outcome_state_after_stream`.

use fn_graph::verif_hooks::streaming::stream_outcome_state_after_stream;
use fn_graph::{StreamOutcome, StreamOutcomeState};

use crate::exec::{self, st, N};
use crate::graphs::shape_run_graph;
use crate::nd;
use crate::{vassert, vcover};

/// `StreamOutcome::new` with a symbolic list of processed ids (distinct, any
/// order, any length <= n): `fn_ids_processed` is kept as given,
/// `fn_ids_not_processed` is exactly the complement in insertion order.
pub fn h_outcome_new(n: usize, shape: &[(u8, u8, u8)]) {
    // one run per list length: the length of every Vec the harness builds is concrete
    let mut len = 0;
    while len <= N {
        if len <= n {
            outcome_new_len(n, shape, len);
        }
        len += 1;
    }
    vcover!(true, "reach: every processed-list length was run");
}

fn outcome_new_len(n: usize, shape: &[(u8, u8, u8)], len: usize) {
    exec::reset();
    let g = shape_run_graph(n, shape);
    let (gs, _, _) = fn_graph::verif_hooks::fn_graph_parts(&g);
    let mut used = [false; N];
    let mut seq = [0usize; N];
    let mut k = 0;
    while k < N {
        if k < len {
            let v = nd::below(n as u8) as usize;
            // distinct ids; constant-index bookkeeping
            let mut x = 0;
            while x < N {
                if x == v {
                    nd::assume(!used[x]);
                    used[x] = true;
                }
                x += 1;
            }
            seq[k] = v;
        }
        k += 1;
    }
    let processed: Vec<fn_graph::FnId> = match len {
        0 => Vec::new(),
        1 => vec![daggy::NodeIndex::new(seq[0])],
        2 => vec![daggy::NodeIndex::new(seq[0]), daggy::NodeIndex::new(seq[1])],
        _ => vec![daggy::NodeIndex::new(seq[0]), daggy::NodeIndex::new(seq[1]), daggy::NodeIndex::new(seq[N - 1])],
    };
    let state = stream_outcome_state_after_stream(n - len);
    vassert!((state == StreamOutcomeState::Finished) == (len == n), "C09: state is not Finished exactly when every function was processed");
    vassert!(len == n || state == StreamOutcomeState::Interrupted, "C09: state is not Interrupted although functions were left out");
    let o = StreamOutcome::new(gs, 7u8, state, processed);
    vassert!(o.value == 7 && o.state == state, "C09: StreamOutcome::new changed the value or the state");
    vassert!(o.fn_ids_processed.len() == len, "C09: fn_ids_processed does not list exactly the functions handed out");
    let mut k = 0;
    while k < N {
        if k < len && k < o.fn_ids_processed.len() {
            vassert!(o.fn_ids_processed[k].index() == seq[k], "C09: fn_ids_processed is not in start order");
        }
        k += 1;
    }
    let mut j = 0;
    let mut v = 0;
    while v < N {
        if v < n && !used[v] {
            vassert!(j < o.fn_ids_not_processed.len() && o.fn_ids_not_processed[j].index() == v, "C09: fn_ids_not_processed is not the complement in insertion order");
            j += 1;
        }
        v += 1;
    }
    vassert!(j == o.fn_ids_not_processed.len(), "C09: fn_ids_not_processed lists a function that was processed");
    let _ = st();
}
