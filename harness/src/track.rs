//! Ri-track: `poll_and_track_fn_ready` with the `interruptible` feature - the
//! stream every fold / for_each scheduler consumes: the ready channel wrapped by
//! `interruptible_with` (real `interruptible` crate), the excluded item filtered
//! when `interrupted_next_item_include` is false, ids tracked in
//! `fn_ids_processed`. Decides, at the level of "ids delivered to the scheduler
//! closure", the interruption bounds of C08 and the processed-list clause of C09.
//!
//! The harness plays the queuer (feeds ids 0, 1, .. into the ready channel,
//! closes it) and the interrupter (sends the signal once, at a symbolic point,
//! possibly before the first poll).

#![cfg(feature = "interruptible")]

use core::pin::pin;
use core::task::{Context, Poll};

use fn_graph::verif_hooks::streaming::poll_and_track_fn_ready;
use fn_graph::FnId;
use futures::stream::Stream;
use interruptible::{InterruptSignal, InterruptibilityState, PollOutcome};
use tokio::sync::mpsc;

use crate::exec::{self, N};
use crate::nd;
use crate::{vassert, vcover};

pub fn h_track(include: bool) {
    exec::reset();
    let n = N;
    let (ready_tx, ready_rx) = mpsc::channel::<FnId>(N);
    let (int_tx, int_rx) = mpsc::channel::<InterruptSignal>(2);
    // 0 NonInterruptible, 1 IgnoreInterruptions, 2 FinishCurrent, 3.. PollNextN(0..=2)
    let strat = nd::below(6);
    let state = match strat {
        0 => InterruptibilityState::new_non_interruptible(),
        1 => InterruptibilityState::new_ignore_interruptions(int_rx.into()),
        2 => InterruptibilityState::new_finish_current(int_rx.into()),
        m => InterruptibilityState::new_poll_next_n(int_rx.into(), (m - 3) as u64),
    };
    let interruptible = strat >= 2;
    let pn: usize = if strat >= 3 { (strat - 3) as usize } else { 0 };
    let waker = exec::flag_waker();
    let mut cx = Context::from_waker(&waker);
    let mut processed: Vec<FnId> = Vec::with_capacity(N + 1);
    let mut delivered = [0u8; N]; // ids handed to the scheduler closure, in order
    let mut n_delivered = 0usize;
    let mut n_after = 0usize; // delivered by polls that happened after the signal was sent
    let mut fed = 0usize;
    let mut ready_tx = Some(ready_tx);
    let mut sent = false;
    let mut sent_before_first_poll = false;
    let mut polls = 0usize;
    let mut interrupted_seen = false;
    let mut ended = false;
    {
        let stream = poll_and_track_fn_ready(ready_rx, &mut processed, state, include);
        let mut stream = pin!(stream);
        macro_rules! step {
            () => {{
                // queuer: feed the next id(s), close when all were fed
                let mut k = 0;
                while k < N {
                    if fed < n && nd::boolean() {
                        if let Some(tx) = ready_tx.as_ref() {
                            let _ = tx.try_send(daggy::NodeIndex::new(fed));
                        }
                        fed += 1;
                    }
                    k += 1;
                }
                if fed == n {
                    ready_tx = None;
                }
                // interrupter
                if !sent && nd::boolean() {
                    let _ = int_tx.try_send(InterruptSignal);
                    sent = true;
                    sent_before_first_poll = polls == 0;
                }
                if !ended {
                    polls += 1;
                    match stream.as_mut().poll_next(&mut cx) {
                        Poll::Ready(Some(o)) => {
                            vassert!(!interrupted_seen, "C08: the ready stream yielded an item after the Interrupted item");
                            let (id, intr) = match o {
                                PollOutcome::NoInterrupt(id) => (Some(id), false),
                                PollOutcome::Interrupted(id) => (id, true),
                            };
                            if intr {
                                interrupted_seen = true;
                                vassert!(interruptible && sent, "C08: Interrupted reported although no interruption applies");
                            }
                            if let Some(id) = id {
                                vassert!(id.index() == n_delivered, "C09: ready ids delivered out of order or lost");
                                if n_delivered < N {
                                    let mut x = 0;
                                    while x < N {
                                        if x == n_delivered {
                                            delivered[x] = id.index() as u8;
                                        }
                                        x += 1;
                                    }
                                }
                                n_delivered += 1;
                                if sent {
                                    n_after += 1;
                                }
                            }
                        }
                        Poll::Ready(None) => ended = true,
                        Poll::Pending => {}
                    }
                }
            }};
        }
        step!();
        step!();
        step!();
        step!();
        if N > 2 {
            step!();
            step!();
        }
    }
    // C08 bounds on the ids delivered after the signal
    if interruptible && sent {
        let bound = if strat == 2 || pn == 0 {
            if include && !sent_before_first_poll { 1 } else { 0 }
        } else {
            pn
        };
        vassert!(n_after <= bound, "C08: more functions delivered after the interrupt signal than the strategy allows");
    } else if ended {
        vassert!(n_delivered == n && !interrupted_seen, "C08: a signal changed which functions run although interruptions are disabled or none was sent");
    }
    // C09: fn_ids_processed = delivered ids in order
    vassert!(processed.len() == n_delivered, "C09: fn_ids_processed does not list exactly the functions handed out");
    let mut k = 0;
    while k < N {
        if k < n_delivered && k < processed.len() {
            vassert!(processed[k].index() == delivered[k] as usize, "C09: fn_ids_processed is not in start order");
        }
        k += 1;
    }
    vcover!(ended, "reach: the ready stream ended");
    vcover!(interrupted_seen, "an Interrupted item was delivered");
    vcover!(ended && n_delivered == n, "all ids delivered");
}
