//! Nondeterminism source. Under Kani every value is `kani::any()`; natively the
//! values are replayed from the byte vectors of a solver counterexample.

#[cfg(not(kani))]
pub mod replay {
    use std::cell::RefCell;
    thread_local! {
        static BYTES: RefCell<(Vec<u8>, usize)> = const { RefCell::new((Vec::new(), 0)) };
        static COVERED: RefCell<Vec<String>> = const { RefCell::new(Vec::new()) };
    }
    pub fn load(bytes: Vec<u8>) {
        BYTES.with(|b| *b.borrow_mut() = (bytes, 0));
        COVERED.with(|c| c.borrow_mut().clear());
        LOG.with(|l| l.borrow_mut().clear());
    }
    /// Next replayed byte; when the recorded values are exhausted the replay
    /// continues with zeros and the exhaustion is counted.
    pub fn next() -> u8 {
        BYTES.with(|b| {
            let mut b = b.borrow_mut();
            let i = b.1;
            b.1 += 1;
            b.0.get(i).copied().unwrap_or(0)
        })
    }
    pub fn consumed() -> (usize, usize) {
        BYTES.with(|b| {
            let b = b.borrow();
            (b.1, b.0.len())
        })
    }
    thread_local! {
        static LOG: RefCell<Vec<String>> = const { RefCell::new(Vec::new()) };
    }
    pub fn log(msg: String) {
        LOG.with(|l| {
            let mut l = l.borrow_mut();
            if l.len() < 200 {
                l.push(msg);
            }
        });
    }
    pub fn log_list() -> Vec<String> {
        LOG.with(|l| l.borrow().clone())
    }
    pub fn covered(msg: &str) {
        COVERED.with(|c| c.borrow_mut().push(msg.to_string()));
    }
    pub fn covered_list() -> Vec<String> {
        COVERED.with(|c| c.borrow().clone())
    }
}

#[cfg(kani)]
#[inline(always)]
pub fn byte() -> u8 {
    kani::any()
}
#[cfg(not(kani))]
pub fn byte() -> u8 {
    replay::next()
}

#[cfg(kani)]
#[inline(always)]
pub fn assume(c: bool) {
    kani::assume(c)
}
#[cfg(not(kani))]
pub fn assume(c: bool) {
    if !c {
        panic!("ASSUME-FAILED: replayed values violate a harness assumption");
    }
}

/// A value in `0..k`.
pub fn below(k: u8) -> u8 {
    let v = byte();
    assume(v < k);
    v
}
pub fn boolean() -> bool {
    below(2) == 1
}

/// Property assertion: the message must start with the property id.
#[macro_export]
macro_rules! vassert {
    ($c:expr, $m:literal) => {
        assert!($c, $m)
    };
}

/// Reachability witness (vacuity guard). Natively it records that the point was reached.
#[macro_export]
macro_rules! vcover {
    ($c:expr, $m:literal) => {{
        #[cfg(kani)]
        kani::cover!($c, $m);
        #[cfg(not(kani))]
        if $c {
            $crate::nd::replay::covered($m);
        }
    }};
}

/// Records an event of the run for the decoded trace of a native replay (no-op under Kani).
#[macro_export]
macro_rules! vlog {
    ($($t:tt)*) => {{
        #[cfg(not(kani))]
        $crate::nd::replay::log(format!($($t)*));
    }};
}
