//! R-queuer: the queuer half shared by all fold / for_each streaming calls
//! (`stream_setup_init` + `fn_ready_queuer` + `queuer_stream_fold`), driven by a
//! harness that plays the scheduler half inside its documented protocol:
//!
//! * it takes function ids from the ready channel (Start),
//! * for every id taken it later reports `done` at most once (End), unless the
//!   function "failed", in which case it never does,
//! * it drops the `done` sender when all functions were reported, and may drop
//!   it at any earlier point (that is what an interruption or a failure does).
//!
//! Decided here: a function becomes ready only after every predecessor reported
//! done, at most once, all of them in a clean run, nothing after a failed
//! predecessor, no idle waiting, and the queuer future and the ready channel end.

use core::future::Future;
use core::pin::pin;
use core::task::{Context, Poll};

use fn_graph::verif_hooks::streaming::{queuer_parts, QueuerParts};

use crate::exec::{self, st, N};
use crate::graphs::{shape_run_graph, sym_run_graph};
use crate::nd;
use crate::{vassert, vcover};

pub fn idle_oracle() {
    let s = st();
    let mut v = 0;
    while v < N {
        if v < s.n && s.start[v] == 0 {
            let mut blocked = false;
            let mut u = 0;
            while u < N {
                if u < s.n && s.pred(u, v) && !s.released[u] {
                    blocked = true;
                }
                u += 1;
            }
            vassert!(blocked, "C06: queuer idle although a function whose predecessors all reported done was never made ready");
        }
        v += 1;
    }
}

pub fn h_queuer(n: usize, shape: Option<&[(u8, u8, u8)]>) {
    exec::reset();
    let g = match shape {
        Some(sh) => shape_run_graph(n, sh),
        None => sym_run_graph(n),
    };
    let rev = nd::boolean();
    st().rev = rev;
    let waker = exec::flag_waker();
    let mut cx = Context::from_waker(&waker);
    let QueuerParts { node_count, mut fn_ready_rx, fn_done_tx, queuer } = queuer_parts(&g, rev);
    vassert!(node_count == n, "C03: node count of the scheduling structure differs from the graph");
    let mut queuer = pin!(queuer);
    let mut done_tx = Some(fn_done_tx);
    let mut q_finished = false;
    let mut ready_closed = false;
    // `released[v]` is used as "done(v) was reported to the queuer".
    let mut clean = true; // no failure, sender dropped only after all were reported

    macro_rules! take_ready {
        () => {{
            let mut taken = 0;
            while taken < N + 1 {
                if !ready_closed {
                    match fn_ready_rx.poll_recv(&mut cx) {
                        Poll::Ready(Some(id)) => exec::on_start(id.index()),
                        Poll::Ready(None) => ready_closed = true,
                        Poll::Pending => {}
                    }
                }
                taken += 1;
            }
        }};
    }
    macro_rules! step {
        () => {{
            // scheduler: some started functions finish now
            let mut v = 0;
            while v < N {
                if v < n && st().in_flight(v) && nd::boolean() {
                    exec::on_end(v);
                    if nd::boolean() {
                        // the function failed: `done` is never reported
                        st().fail[v] = true;
                        clean = false;
                    } else if let Some(tx) = done_tx.as_ref() {
                        st().released[v] = true;
                        let r = tx.try_send(daggy::NodeIndex::new(v));
                        vassert!(r.is_ok() || q_finished, "C04: done channel rejected a completion report while the queuer was running");
                    }
                }
                v += 1;
            }
            // scheduler: drop the sender when everything was reported, or earlier
            let mut reported = 0;
            let mut v = 0;
            while v < N {
                if v < n && st().released[v] {
                    reported += 1;
                }
                v += 1;
            }
            if done_tx.is_some() {
                if reported == n {
                    done_tx = None;
                } else if nd::boolean() {
                    done_tx = None;
                    clean = false;
                }
            }
            // poll the queuer, then take what it made ready
            exec::clear_woken();
            if !q_finished {
                if let Poll::Ready(()) = queuer.as_mut().poll(&mut cx) {
                    q_finished = true;
                }
            }
            take_ready!();
            if !exec::is_woken() {
                if done_tx.is_some() {
                    idle_oracle();
                } else {
                    vassert!(q_finished, "C04: queuer still pending without wake-up after the done sender was dropped");
                    vassert!(ready_closed, "C04: ready channel not closed after the queuer finished");
                }
            }
        }};
    }
    macro_rules! steps {
        ([$($k:tt)*]) => { $( let _ = stringify!($k); step!(); )* };
    }
    // The scheduler starts by taking the functions without predecessors; the
    // queuer has not been polled yet.
    take_ready!();
    #[cfg(feature = "n2")]
    steps!([1 2 3 4 5]);
    #[cfg(not(feature = "n2"))]
    steps!([1 2 3 4 5 6 7]);

    let s = st();
    if clean && done_tx.is_none() {
        let mut v = 0;
        while v < N {
            if v < n {
                vassert!(s.starts[v] == 1, "C03: clean run ended without every function made ready exactly once");
            }
            v += 1;
        }
    }
    vcover!(clean && done_tx.is_none() && q_finished, "reach: clean run, all reported, queuer finished");
    vcover!(!clean && q_finished, "aborted run: queuer finished after early sender drop");
    vcover!(s.max_in_flight >= 2, "two functions in flight");
}
