//! Run-side harnesses: the concurrent / fold APIs driven by the controlled executor.

use core::future::Future;
use core::pin::pin;
use core::task::{Context, Poll};

use fn_graph::{StreamOpts, StreamOutcome, StreamOutcomeState};

use crate::exec::{self, st, UserFut, N};
use crate::graphs::{sym_run_graph, Fx};
use crate::nd;
use crate::{vassert, vcover};

/// Upper bound on polls for a graph of `N` functions (see DESIGN.md 3.3).
pub const MAX_POLLS: usize = 3 * N + 1;

/// Polls `fut` with the flag waker until it is ready or the poll bound is hit.
/// The loop is unrolled so that the one global unwind bound is the library's.
macro_rules! drive {
    ($fut:ident, $no_waiting:expr, [$($k:tt)*]) => {{
        let waker = exec::flag_waker();
        let mut cx = Context::from_waker(&waker);
        let mut out = None;
        $(
            let _ = stringify!($k);
            if out.is_none() {
                exec::clear_woken();
                st().polls += 1;
                match $fut.as_mut().poll(&mut cx) {
                    Poll::Ready(o) => {
                        exec::on_ready();
                        out = Some(o);
                    }
                    Poll::Pending => exec::on_pending($no_waiting),
                }
            }
        )*
        out
    }};
}

macro_rules! drive_n {
    ($fut:ident, $no_waiting:expr) => {
        // `polls!()` cannot be expanded inside another macro's matcher, so the
        // list is spelled per bound here.
        drive_n!(@ $fut, $no_waiting)
    };
    (@ $fut:ident, $no_waiting:expr) => {{
        #[cfg(feature = "n2")]
        let o = drive!($fut, $no_waiting, [1 2 3 4 5 6 7]);
        #[cfg(all(feature = "n4", not(feature = "n2")))]
        let o = drive!($fut, $no_waiting, [1 2 3 4 5 6 7 8 9 10 11 12 13]);
        #[cfg(not(any(feature = "n2", feature = "n4")))]
        let o = drive!($fut, $no_waiting, [1 2 3 4 5 6 7 8 9 10]);
        o
    }};
}

fn sym_order() -> bool {
    let rev = nd::boolean();
    st().rev = rev;
    rev
}

fn opts<'a>(rev: bool) -> StreamOpts<'a, 'a> {
    if rev {
        StreamOpts::new().rev()
    } else {
        StreamOpts::new()
    }
}

/// `limit`: None, Some(0) .. Some(N).
fn sym_limit() -> Option<usize> {
    let l = nd::below(N as u8 + 2);
    if l == 0 {
        None
    } else {
        st().limit = (l - 1) as usize;
        Some((l - 1) as usize)
    }
}

/// C09 for a clean or interrupted run without failures.
pub fn check_outcome<T>(o: &StreamOutcome<T>) {
    let s = st();
    vassert!(o.fn_ids_processed.len() == s.order_len, "C09: fn_ids_processed does not list exactly the functions handed out");
    let mut i = 0;
    while i < N {
        if i < s.order_len && i < o.fn_ids_processed.len() {
            vassert!(o.fn_ids_processed[i].index() == s.order[i] as usize, "C09: fn_ids_processed is not in start order");
        }
        i += 1;
    }
    // not processed: the complement, ascending
    let mut k = 0;
    let mut v = 0;
    while v < N {
        if v < s.n && s.start[v] == 0 {
            vassert!(k < o.fn_ids_not_processed.len() && o.fn_ids_not_processed[k].index() == v, "C09: fn_ids_not_processed is not the complement in insertion order");
            k += 1;
        }
        v += 1;
    }
    vassert!(k == o.fn_ids_not_processed.len(), "C09: fn_ids_not_processed lists a function that was processed");
    let all = s.started_count() == s.n;
    vassert!((o.state == StreamOutcomeState::Finished) == all, "C09: state is not Finished exactly when every function was processed");
    vassert!(all || o.state == StreamOutcomeState::Interrupted, "C09: state is not Interrupted although functions were left out");
}

/// C03 exactly-once for a run that was neither interrupted nor failed.
pub fn check_all_once() {
    let s = st();
    let mut v = 0;
    while v < N {
        if v < s.n {
            vassert!(s.starts[v] == 1, "C03: clean run ended without every function handed out exactly once");
        }
        v += 1;
    }
}

/// R-fec: `for_each_concurrent_with`, symbolic graph, order, limit and schedule.
pub fn h_fec(n: usize) {
    exec::reset();
    let g = sym_run_graph(n);
    let rev = sym_order();
    let limit = sym_limit();
    let unlimited = st().limit == 0;
    let fut = g.for_each_concurrent_with(limit, opts(rev), |f: &Fx| {
        let u = UserFut::new(f.id);
        async move {
            let _ = u.await;
        }
    });
    let mut fut = pin!(fut);
    let out = drive_n!(fut, unlimited);
    vassert!(out.is_some(), "C04: call did not return within the poll bound although every started future completed");
    if let Some(o) = out {
        check_all_once();
        check_outcome(&o);
        vcover!(st().max_in_flight >= 2, "run completed with two functions in flight at some point");
        vcover!(true, "run completed");
    }
}
