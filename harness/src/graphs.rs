//! Symbolic graphs and the function type the harnesses instantiate `F` with.

use core::any::TypeId;

use daggy::Dag;
use fn_graph::{DataAccessDyn, Edge, EdgeCounts, FnGraph, FnIdInner, Rank, TypeIds};

use crate::exec::{st, N};
use crate::nd;
use crate::vlog;

/// Data types functions may declare access to.
pub struct D0;
pub struct D1;
/// Number of data types.
pub const K: usize = 2;

pub const ACC_NONE: u8 = 0;
pub const ACC_READ: u8 = 1;
pub const ACC_WRITE: u8 = 2;

/// `F`: a function is its id plus its declared access per data type.
#[derive(Clone, Copy, Debug, PartialEq, Eq)]
pub struct Fx {
    pub id: u8,
    pub acc: [u8; K],
}

fn type_id(d: usize) -> TypeId {
    if d == 0 {
        TypeId::of::<D0>()
    } else {
        TypeId::of::<D1>()
    }
}

impl DataAccessDyn for Fx {
    fn borrows(&self) -> TypeIds {
        let mut t = TypeIds::new();
        let mut d = 0;
        while d < K {
            if self.acc[d] == ACC_READ {
                t.push(type_id(d));
            }
            d += 1;
        }
        t
    }
    fn borrow_muts(&self) -> TypeIds {
        let mut t = TypeIds::new();
        let mut d = 0;
        while d < K {
            if self.acc[d] == ACC_WRITE {
                t.push(type_id(d));
            }
            d += 1;
        }
        t
    }
}

/// The conflict predicate, written from the property text: same data type, at
/// least one of the two accesses mutable.
pub fn conflict(a: &Fx, b: &Fx) -> bool {
    let mut c = false;
    let mut d = 0;
    while d < K {
        let (x, y) = (a.acc[d], b.acc[d]);
        if x != ACC_NONE && y != ACC_NONE && (x == ACC_WRITE || y == ACC_WRITE) {
            c = true;
        }
        d += 1;
    }
    c
}

pub fn kind_of(k: u8) -> Edge {
    match k {
        0 => Edge::Logic,
        1 => Edge::Contains,
        _ => Edge::Data,
    }
}


/// Ranks as `build()` computes them: longest chain of Logic / Contains edges
/// ending at each function (n rounds of relaxation; `user[a][b]`: such an edge a -> b).
fn ranks_of(n: usize, user: &[[bool; N]; N]) -> Vec<Rank> {
    let mut r = [0usize; N];
    let mut round = 0;
    while round < N {
        let mut a = 0;
        while a < N {
            let mut b = 0;
            while b < N {
                if user[a][b] && r[b] < r[a] + 1 {
                    r[b] = r[a] + 1;
                }
                b += 1;
            }
            a += 1;
        }
        round += 1;
    }
    let mut v = Vec::with_capacity(N);
    let mut i = 0;
    while i < N {
        if i < n {
            v.push(Rank(r[i]));
        }
        i += 1;
    }
    v
}

/// An arbitrary built graph with `n` functions that satisfies the
/// representation invariant (RepInv) the build-side harnesses establish:
/// `graph_structure` has exactly the edges of `graph` (same order, same kinds),
/// `graph_structure_rev` the same edges reversed, `edge_counts` are the in/out
/// degrees over all edge kinds, the graph is acyclic, and every conflicting
/// pair of functions is joined by a path (conflicts are chosen symbolically
/// under that assumption).
///
/// Symbolic: per unordered pair {i, j} one of {no edge, i -> j, j -> i} with a
/// symbolic kind; cyclic choices are discarded. Edge insertion order is the
/// fixed pair order (0,1), (0,2), (1,2), ...
pub fn sym_run_graph(n: usize) -> FnGraph<Fx> {
    let s = st();
    s.n = n;
    let mut g = Dag::<Fx, Edge, FnIdInner>::new();
    let mut gs = Dag::<(), Edge, FnIdInner>::new();
    let mut gr = Dag::<(), Edge, FnIdInner>::new();
    let mut incoming = [0usize; N];
    let mut outgoing = [0usize; N];
    let mut user = [[false; N]; N];
    let mut i = 0;
    while i < N {
        if i < n {
            g.add_node(Fx { id: i as u8, acc: [ACC_NONE; K] });
            gs.add_node(());
            gr.add_node(());
        }
        i += 1;
    }
    let mut i = 0;
    while i < N {
        let mut j = i + 1;
        while j < N {
            if j < n {
                let c = nd::below(3);
                if c != 0 {
                    let (a, b) = if c == 1 { (i, j) } else { (j, i) };
                    let kc = nd::below(3);
                    let kind = kind_of(kc);
                    let (na, nb) = (daggy::NodeIndex::new(a), daggy::NodeIndex::new(b));
                    let r = g.add_edge(na, nb, kind);
                    nd::assume(r.is_ok());
                    let _ = gs.add_edge(na, nb, kind);
                    let _ = gr.add_edge(nb, na, kind);
                    s.edge[a][b] = true;
                    vlog!("edge {} -> {} kind {}", a, b, kc);
                    if kc != 2 {
                        user[a][b] = true;
                    }
                    incoming[b] += 1;
                    outgoing[a] += 1;
                }
            }
            j += 1;
        }
        i += 1;
    }
    s.close_paths();
    // Conflicts: any relation the build side can produce, i.e. every
    // conflicting pair is ordered by a path.
    let mut i = 0;
    while i < N {
        let mut j = i + 1;
        while j < N {
            if j < n && (s.path[i][j] || s.path[j][i]) && nd::boolean() {
                s.conflict[i][j] = true;
                s.conflict[j][i] = true;
            }
            j += 1;
        }
        i += 1;
    }
    let ranks = ranks_of(n, &user);
    let counts = EdgeCounts::new(incoming[..n].to_vec(), outgoing[..n].to_vec());
    fn_graph::verif_hooks::fn_graph_from_parts(g, gs, gr, ranks, counts)
}

/// A built graph (RepInv as for `sym_run_graph`) of a concrete shape: `shape`
/// lists the edges `(from, to, kind)` in insertion order. Conflicts stay
/// symbolic (any relation in which every conflicting pair is joined by a path).
pub fn shape_run_graph(n: usize, shape: &[(u8, u8, u8)]) -> FnGraph<Fx> {
    let s = st();
    s.n = n;
    let mut g = Dag::<Fx, Edge, FnIdInner>::new();
    let mut gs = Dag::<(), Edge, FnIdInner>::new();
    let mut gr = Dag::<(), Edge, FnIdInner>::new();
    let mut incoming = [0usize; N];
    let mut outgoing = [0usize; N];
    let mut user = [[false; N]; N];
    let mut i = 0;
    while i < n {
        g.add_node(Fx { id: i as u8, acc: [ACC_NONE; K] });
        gs.add_node(());
        gr.add_node(());
        i += 1;
    }
    let mut e = 0;
    while e < shape.len() {
        let (a, b, k) = shape[e];
        let (a, b) = (a as usize, b as usize);
        let kind = kind_of(k);
        let (na, nb) = (daggy::NodeIndex::new(a), daggy::NodeIndex::new(b));
        g.add_edge(na, nb, kind).expect("shape must be acyclic");
        gs.add_edge(na, nb, kind).expect("shape must be acyclic");
        gr.add_edge(nb, na, kind).expect("shape must be acyclic");
        s.edge[a][b] = true;
        vlog!("edge {} -> {} kind {}", a, b, k % 3);
        if k % 3 != 2 {
            user[a][b] = true;
        }
        incoming[b] += 1;
        outgoing[a] += 1;
        e += 1;
    }
    s.close_paths();
    let mut i = 0;
    while i < N {
        let mut j = i + 1;
        while j < N {
            if j < n && (s.path[i][j] || s.path[j][i]) && nd::boolean() {
                s.conflict[i][j] = true;
                s.conflict[j][i] = true;
            }
            j += 1;
        }
        i += 1;
    }
    let ranks = ranks_of(n, &user);
    let counts = EdgeCounts::new(incoming[..n].to_vec(), outgoing[..n].to_vec());
    fn_graph::verif_hooks::fn_graph_from_parts(g, gs, gr, ranks, counts)
}
