//! Build-side harnesses: the stages of `FnGraphBuilder::build` as units, each
//! from an arbitrary symbolic user graph, plus the builder API itself.

use daggy::{Dag, NodeIndex};
use fn_graph::{Edge, FnIdInner, Rank};

use crate::exec::N;
use crate::graphs::{conflict, kind_of, Fx, ACC_NONE, K};
use crate::nd;
use crate::{vassert, vcover};

/// What the harness knows about the user graph it generated.
pub struct UserGraph {
    pub g: Dag<Fx, Edge, FnIdInner>,
    /// `user[a][b]`: 0 = no edge, 1 = Logic, 2 = Contains.
    pub user: [[u8; N]; N],
    /// Endpoints of the user edges in insertion order.
    pub user_edges: [(u8, u8); N * N],
    pub user_edge_count: usize,
}

pub fn ni(i: usize) -> NodeIndex<FnIdInner> {
    NodeIndex::new(i)
}

/// An arbitrary user graph over `n` functions: every ordered pair (a, b), a != b,
/// in a fixed scan order, is symbolically absent / Logic / Contains; pairs that
/// would close a cycle are rejected by the graph itself and simply skipped (the
/// builder's behaviour). `with_acc`: access declarations are symbolic too.
pub fn sym_user_graph(n: usize, with_acc: bool) -> UserGraph {
    let mut g = Dag::<Fx, Edge, FnIdInner>::new();
    let mut i = 0;
    while i < N {
        if i < n {
            let mut acc = [ACC_NONE; K];
            if with_acc {
                let mut d = 0;
                while d < K {
                    acc[d] = nd::below(3);
                    d += 1;
                }
            }
            g.add_node(Fx { id: i as u8, acc });
        }
        i += 1;
    }
    let mut user = [[0u8; N]; N];
    let mut user_edges = [(0u8, 0u8); N * N];
    let mut cnt = 0;
    let mut a = 0;
    while a < N {
        let mut b = 0;
        while b < N {
            if a != b && a < n && b < n {
                let c = nd::below(3);
                if c != 0 && g.update_edge(ni(a), ni(b), kind_of(c - 1)).is_ok() {
                    user[a][b] = c;
                    user_edges[cnt] = (a as u8, b as u8);
                    cnt += 1;
                }
            }
            b += 1;
        }
        a += 1;
    }
    UserGraph { g, user, user_edges, user_edge_count: cnt }
}

/// Longest chain of user edges ending at each function (Bellman-Ford style
/// relaxation, n rounds, fixed bounds): the reference for `ranks()`.
pub fn longest_chain(user: &[[u8; N]; N]) -> [usize; N] {
    let mut r = [0usize; N];
    let mut round = 0;
    while round < N {
        let mut a = 0;
        while a < N {
            let mut b = 0;
            while b < N {
                if user[a][b] != 0 && r[b] < r[a] + 1 {
                    r[b] = r[a] + 1;
                }
                b += 1;
            }
            a += 1;
        }
        round += 1;
    }
    r
}

/// B1: `RankCalc::calc` against the longest-chain reference, and the number of
/// queue pops per function (C13, C18).
pub fn h_rank(n: usize) {
    let ug = sym_user_graph(n, false);
    fn_graph::verif_hooks::rank_visits_reset();
    let ranks = fn_graph::verif_hooks::rank_calc(&ug.g);
    let visits = fn_graph::verif_hooks::rank_visits();
    let want = longest_chain(&ug.user);
    vassert!(ranks.len() == n, "C13: ranks() does not have one entry per function");
    let mut i = 0;
    while i < N {
        if i < n && i < ranks.len() {
            vassert!(ranks[i] == Rank(want[i]), "C13: rank differs from the longest dependency chain ending at the function");
            vassert!(visits[i] <= n, "C18: rank calculation visited a function more often than there are functions");
        }
        i += 1;
    }
    vcover!(n >= 3 && want[n - 1] == 2 && ug.user[0][n - 1] != 0, "a function reached over two chains of different length");
    vcover!(n >= 1 && want[0] >= 1, "insertion order differs from dependency order");
}

/// Reflexive-transitive closure of the edges of `g` (Warshall over raw edges).
pub fn closure_of<NW>(g: &Dag<NW, Edge, FnIdInner>) -> [[bool; N]; N] {
    let mut p = [[false; N]; N];
    let mut i = 0;
    while i < N {
        p[i][i] = true;
        i += 1;
    }
    let edges = g.raw_edges();
    let mut e = 0;
    while e < daggy_max_edges() {
        if e < edges.len() {
            p[edges[e].source().index()][edges[e].target().index()] = true;
        }
        e += 1;
    }
    warshall(&mut p);
    p
}

pub fn warshall(p: &mut [[bool; N]; N]) {
    let mut k = 0;
    while k < N {
        let mut i = 0;
        while i < N {
            let mut j = 0;
            while j < N {
                if p[i][k] && p[k][j] {
                    p[i][j] = true;
                }
                j += 1;
            }
            i += 1;
        }
        k += 1;
    }
}

/// Upper bound on the number of edges any harness graph can hold.
pub const fn daggy_max_edges() -> usize {
    N * (N - 1) / 2 + 2
}

/// B2: `DataEdgeAugmenter::augment` from an arbitrary user graph and arbitrary
/// access declarations (C11, C12 and the build-side clauses of C01 / C06).
pub fn h_augment(n: usize) {
    let ug = sym_user_graph(n, true);
    let UserGraph { mut g, user, user_edges, user_edge_count } = ug;
    let want = longest_chain(&user);
    let mut ranks = Vec::with_capacity(N);
    let mut i = 0;
    while i < N {
        if i < n {
            ranks.push(Rank(want[i]));
        }
        i += 1;
    }
    // closure over user edges only
    let mut up = [[false; N]; N];
    let mut a = 0;
    while a < N {
        up[a][a] = true;
        let mut b = 0;
        while b < N {
            if user[a][b] != 0 {
                up[a][b] = true;
            }
            b += 1;
        }
        a += 1;
    }
    warshall(&mut up);

    fn_graph::verif_hooks::augment(&mut g, &ranks);

    check_built_edges(&g, n, &user, &user_edges, user_edge_count, &up, &want);
}

/// The oracles over the edge list of a built graph.
pub fn check_built_edges(
    g: &Dag<Fx, Edge, FnIdInner>,
    n: usize,
    user: &[[u8; N]; N],
    user_edges: &[(u8, u8); N * N],
    user_edge_count: usize,
    up: &[[bool; N]; N],
    want: &[usize; N],
) {
    vassert!(g.node_count() == n, "C11: built graph does not contain every function");
    let mut i = 0;
    while i < N {
        if i < n {
            vassert!(g[ni(i)].id as usize == i, "C11: function not stored under the id add_fn returned");
        }
        i += 1;
    }
    let edges = g.raw_edges();
    vassert!(edges.len() >= user_edge_count, "C11: an accepted user edge is missing from the built graph");
    vassert!(edges.len() <= daggy_max_edges(), "C11: built graph has duplicate edges");
    // user edges first, unchanged, in order
    let mut e = 0;
    while e < N * N {
        if e < user_edge_count && e < edges.len() {
            let (a, b) = user_edges[e];
            vassert!(edges[e].source().index() == a as usize && edges[e].target().index() == b as usize, "C11: accepted user edge missing or moved");
            vassert!(edges[e].weight == kind_of(user[a as usize][b as usize] - 1), "C11: kind of an accepted user edge changed");
        }
        e += 1;
    }
    let p = closure_of(g);
    // acyclic
    let mut a = 0;
    while a < N {
        let mut b = 0;
        while b < N {
            if a != b {
                vassert!(!(p[a][b] && p[b][a]), "C11: built graph has a cycle");
            }
            b += 1;
        }
        a += 1;
    }
    // added edges: Data only, between conflicting functions, not redundant
    let mut data_edges = 0;
    let mut e = 0;
    while e < daggy_max_edges() {
        if e >= user_edge_count && e < edges.len() {
            let (a, b) = (edges[e].source().index(), edges[e].target().index());
            vassert!(edges[e].weight == Edge::Data, "C11: an edge the user did not add is not of kind Data");
            vassert!(conflict(&g[ni(a)], &g[ni(b)]), "C06: Data edge between functions without conflicting access");
            vassert!(user[a][b] == 0, "C12: Data edge duplicates a user edge");
            // redundancy: a path a ->* b avoiding edge e
            let mut q = [[false; N]; N];
            let mut i = 0;
            while i < N {
                q[i][i] = true;
                i += 1;
            }
            let mut f = 0;
            while f < daggy_max_edges() {
                if f < edges.len() && f != e {
                    q[edges[f].source().index()][edges[f].target().index()] = true;
                }
                f += 1;
            }
            warshall(&mut q);
            vassert!(!q[a][b], "C12: Data edge repeats an ordering already implied by other edges");
            data_edges += 1;
        }
        e += 1;
    }
    // every conflicting pair ordered, in rank-then-insertion order
    let mut a = 0;
    while a < N {
        let mut b = a + 1;
        while b < N {
            if b < n && conflict(&g[ni(a)], &g[ni(b)]) {
                vassert!(p[a][b] || p[b][a], "C11: conflicting functions not joined by a path");
                if !up[a][b] && !up[b][a] {
                    // a < b: equal rank -> a first
                    let a_first = want[a] <= want[b];
                    vassert!(p[a][b] == a_first, "C12: conflicting functions not ordered by rank, then insertion order");
                }
            }
            b += 1;
        }
        a += 1;
    }
    vcover!(data_edges >= 2, "two Data edges added");
    vcover!(data_edges >= 1 && user_edge_count >= 1, "Data edge added next to a user edge");
}

#[cfg(kani)]
mod proofs {
    use super::*;

    #[kani::proof]
    #[kani::unwind(10)]
    fn b_rank() {
        h_rank(N);
    }

    #[kani::proof]
    #[kani::unwind(6)]
    fn b_augment() {
        h_augment(N);
    }
}
