//! Build-side harnesses: the stages of `FnGraphBuilder::build` as units, each
//! from an arbitrary symbolic user graph, plus the builder API itself.

use daggy::{Dag, NodeIndex};
use fn_graph::{Edge, FnIdInner, Rank};

use crate::exec::N;
use crate::graphs::{conflict, kind_of, Fx, ACC_NONE, K};
use crate::nd;
use crate::{vassert, vcover};

/// What the harness knows about the user graph it generated.
pub struct UserGraph {
    pub g: Dag<Fx, Edge, FnIdInner>,
    /// `user[a][b]`: 0 = no edge, 1 = Logic, 2 = Contains.
    pub user: [[u8; N]; N],
    /// Endpoints of the user edges in insertion order.
    pub user_edges: [(u8, u8); N * N],
    pub user_edge_count: usize,
}

pub fn ni(i: usize) -> NodeIndex<FnIdInner> {
    NodeIndex::new(i)
}

/// An arbitrary user graph over `n` functions: every ordered pair (a, b), a != b,
/// in a fixed scan order, is symbolically absent / Logic / Contains; pairs that
/// would close a cycle are rejected by the graph itself and simply skipped (the
/// builder's behaviour). `with_acc`: access declarations are symbolic too.
pub fn sym_user_graph(n: usize, with_acc: bool) -> UserGraph {
    sym_user_graph_slots(n, with_acc, false)
}

/// As `sym_user_graph`; `forward_only` restricts the symbolic slots to pairs
/// (a, b) with a < b (insertion order = a topological order).
pub fn sym_user_graph_slots(n: usize, with_acc: bool, forward_only: bool) -> UserGraph {
    let mut g = Dag::<Fx, Edge, FnIdInner>::new();
    let mut i = 0;
    while i < N {
        if i < n {
            let mut acc = [ACC_NONE; K];
            if with_acc {
                let mut d = 0;
                while d < K {
                    acc[d] = nd::below(3);
                    d += 1;
                }
            }
            g.add_node(Fx { id: i as u8, acc });
        }
        i += 1;
    }
    let mut user = [[0u8; N]; N];
    let mut user_edges = [(0u8, 0u8); N * N];
    let mut cnt = 0;
    let mut a = 0;
    while a < N {
        let mut b = 0;
        while b < N {
            if a != b && a < n && b < n && (!forward_only || a < b) {
                let c = nd::below(3);
                if c != 0 && g.update_edge(ni(a), ni(b), kind_of(c - 1)).is_ok() {
                    user[a][b] = c;
                    user_edges[cnt] = (a as u8, b as u8);
                    cnt += 1;
                }
            }
            b += 1;
        }
        a += 1;
    }
    UserGraph { g, user, user_edges, user_edge_count: cnt }
}

/// Longest chain of user edges ending at each function (Bellman-Ford style
/// relaxation, n rounds, fixed bounds): the reference for `ranks()`.
pub fn longest_chain(user: &[[u8; N]; N]) -> [usize; N] {
    let mut r = [0usize; N];
    let mut round = 0;
    while round < N {
        let mut a = 0;
        while a < N {
            let mut b = 0;
            while b < N {
                if user[a][b] != 0 && r[b] < r[a] + 1 {
                    r[b] = r[a] + 1;
                }
                b += 1;
            }
            a += 1;
        }
        round += 1;
    }
    r
}

/// B1: `RankCalc::calc` against the longest-chain reference, and the number of
/// queue pops per function (C13, C18).
pub fn h_rank(n: usize) {
    h_rank_slots(n, false)
}

pub fn h_rank_slots(n: usize, forward_only: bool) {
    let ug = sym_user_graph_slots(n, false, forward_only);
    fn_graph::verif_hooks::rank_visits_reset();
    let ranks = fn_graph::verif_hooks::rank_calc(&ug.g);
    let visits = fn_graph::verif_hooks::rank_visits();
    let want = longest_chain(&ug.user);
    vassert!(ranks.len() == n, "C13: ranks() does not have one entry per function");
    let mut i = 0;
    while i < N {
        if i < n && i < ranks.len() {
            vassert!(ranks[i] == Rank(want[i]), "C13: rank differs from the longest dependency chain ending at the function");
            vassert!(visits[i] <= n, "C18: rank calculation visited a function more often than there are functions");
        }
        i += 1;
    }
    vcover!(true, "reach: rank calculation returned");
    vcover!(n >= 3 && want[n - 1] == 2 && ug.user[0][n - 1] != 0, "a function reached over two chains of different length");
    vcover!(n >= 1 && want[0] >= 1, "insertion order differs from dependency order");
}

/// The edge list of `g` as a matrix with concrete indices: `m[x][y]` = 0 if
/// there is no edge x -> y, else 1 + kind (1 Logic, 2 Contains, 3 Data);
/// `pos[x][y]` = index of that edge in `raw_edges`; `dup` = some ordered pair
/// occurs twice. Scanning with comparisons keeps symbolic values out of array
/// indices (array theory over symbolic indices is what exhausts the solver).
pub struct EdgeMatrix {
    pub m: [[u8; N]; N],
    pub pos: [[u8; N]; N],
    pub dup: bool,
    pub count: usize,
}

pub fn edge_matrix<NW>(g: &Dag<NW, Edge, FnIdInner>) -> EdgeMatrix {
    let mut em = EdgeMatrix { m: [[0; N]; N], pos: [[0; N]; N], dup: false, count: 0 };
    let edges = g.raw_edges();
    em.count = edges.len();
    let mut e = 0;
    while e < daggy_max_edges() {
        if e < edges.len() {
            let (sx, tx) = (edges[e].source().index(), edges[e].target().index());
            let k = match edges[e].weight {
                Edge::Logic => 1,
                Edge::Contains => 2,
                Edge::Data => 3,
            };
            let mut x = 0;
            while x < N {
                let mut y = 0;
                while y < N {
                    if sx == x && tx == y {
                        if em.m[x][y] != 0 {
                            em.dup = true;
                        }
                        em.m[x][y] = k;
                        em.pos[x][y] = e as u8;
                    }
                    y += 1;
                }
                x += 1;
            }
        }
        e += 1;
    }
    em
}

/// Reflexive-transitive closure of an edge matrix, optionally leaving one edge out.
pub fn closure_m(m: &[[u8; N]; N], skip: Option<(usize, usize)>) -> [[bool; N]; N] {
    let mut p = [[false; N]; N];
    let mut x = 0;
    while x < N {
        p[x][x] = true;
        let mut y = 0;
        while y < N {
            if m[x][y] != 0 && skip != Some((x, y)) {
                p[x][y] = true;
            }
            y += 1;
        }
        x += 1;
    }
    warshall(&mut p);
    p
}

pub fn warshall(p: &mut [[bool; N]; N]) {
    let mut k = 0;
    while k < N {
        let mut i = 0;
        while i < N {
            let mut j = 0;
            while j < N {
                if p[i][k] && p[k][j] {
                    p[i][j] = true;
                }
                j += 1;
            }
            i += 1;
        }
        k += 1;
    }
}

/// Upper bound on the number of edges any harness graph can hold.
pub const fn daggy_max_edges() -> usize {
    N * (N - 1) / 2 + 2
}

/// B2: `DataEdgeAugmenter::augment` from an arbitrary user graph and arbitrary
/// access declarations (C11, C12 and the build-side clauses of C01 / C06).
pub fn h_augment(n: usize) {
    h_augment_on(n, None)
}

/// A user graph of a concrete shape (edge kinds alternate Logic / Contains)
/// with symbolic access declarations.
pub fn shape_user_graph(n: usize, shape: &[(u8, u8, u8)]) -> UserGraph {
    let mut g = Dag::<Fx, Edge, FnIdInner>::new();
    let mut i = 0;
    while i < n {
        let mut acc = [ACC_NONE; K];
        let mut d = 0;
        while d < K {
            acc[d] = nd::below(3);
            d += 1;
        }
        g.add_node(Fx { id: i as u8, acc });
        i += 1;
    }
    let mut user = [[0u8; N]; N];
    let mut user_edges = [(0u8, 0u8); N * N];
    let mut e = 0;
    while e < shape.len() {
        let (a, b, k) = shape[e];
        let c = 1 + (k % 2);
        g.update_edge(ni(a as usize), ni(b as usize), kind_of(c - 1)).expect("shape must be acyclic");
        user[a as usize][b as usize] = c;
        user_edges[e] = (a, b);
        e += 1;
    }
    UserGraph { g, user, user_edges, user_edge_count: shape.len() }
}

pub fn h_augment_on(n: usize, shape: Option<&[(u8, u8, u8)]>) {
    let ug = match shape {
        Some(sh) => shape_user_graph(n, sh),
        None => sym_user_graph(n, true),
    };
    let UserGraph { mut g, user, user_edges: _, user_edge_count } = ug;
    let want = longest_chain(&user);
    let mut ranks = Vec::with_capacity(N);
    let mut i = 0;
    while i < N {
        if i < n {
            ranks.push(Rank(want[i]));
        }
        i += 1;
    }
    // closure over user edges only
    let mut up = [[false; N]; N];
    let mut a = 0;
    while a < N {
        up[a][a] = true;
        let mut b = 0;
        while b < N {
            if user[a][b] != 0 {
                up[a][b] = true;
            }
            b += 1;
        }
        a += 1;
    }
    warshall(&mut up);

    fn_graph::verif_hooks::augment(&mut g, &ranks);

    check_built_edges(&g, n, &user, user_edge_count, &up, &want);
}

/// The oracles over the edge list of a built graph.
pub fn check_built_edges(
    g: &Dag<Fx, Edge, FnIdInner>,
    n: usize,
    user: &[[u8; N]; N],
    user_edge_count: usize,
    up: &[[bool; N]; N],
    want: &[usize; N],
) {
    vassert!(g.node_count() == n, "C11: built graph does not contain every function");
    let mut fx = [Fx { id: 0, acc: [ACC_NONE; K] }; N];
    let mut i = 0;
    while i < N {
        if i < n {
            fx[i] = g[ni(i)];
            vassert!(fx[i].id as usize == i, "C11: function not stored under the id add_fn returned");
        }
        i += 1;
    }
    let em = edge_matrix(g);
    vassert!(!em.dup, "C11: built graph has two edges for one ordered pair of functions");
    let p = closure_m(&em.m, None);
    let mut data_edges = 0;
    let mut x = 0;
    while x < N {
        let mut y = 0;
        while y < N {
            if x != y {
                vassert!(!(p[x][y] && p[y][x]), "C11: built graph has a cycle");
            }
            if user[x][y] != 0 {
                // accepted user edge: present, kind unchanged, among the first edges
                vassert!(em.m[x][y] == user[x][y], "C11: accepted user edge missing or its kind changed");
                vassert!((em.pos[x][y] as usize) < user_edge_count, "C11: accepted user edge moved behind an added edge");
            } else if em.m[x][y] != 0 {
                // an edge the user did not add
                vassert!(em.m[x][y] == 3, "C11: an edge the user did not add is not of kind Data");
                vassert!(conflict(&fx[x], &fx[y]), "C06: Data edge between functions without conflicting access");
                let q = closure_m(&em.m, Some((x, y)));
                vassert!(!q[x][y], "C12: Data edge repeats an ordering already implied by other edges");
                data_edges += 1;
            }
            y += 1;
        }
        x += 1;
    }
    vassert!(em.count == user_edge_count + data_edges, "C11: edge count differs from accepted user edges plus Data edges");
    // every conflicting pair ordered, in rank-then-insertion order
    let mut a = 0;
    while a < N {
        let mut b = a + 1;
        while b < N {
            if b < n && conflict(&fx[a], &fx[b]) {
                vassert!(p[a][b] || p[b][a], "C11: conflicting functions not joined by a path");
                if !up[a][b] && !up[b][a] {
                    // a < b: equal rank -> a first
                    let a_first = want[a] <= want[b];
                    vassert!(p[a][b] == a_first, "C12: conflicting functions not ordered by rank, then insertion order");
                }
            }
            b += 1;
        }
        a += 1;
    }
    vcover!(true, "reach: augmentation returned and every oracle was evaluated");
    vcover!(data_edges >= 1, "a Data edge added");
    if N >= 3 {
        vcover!(data_edges >= 2, "two Data edges added");
        vcover!(data_edges >= 1 && user_edge_count >= 1, "Data edge added next to a user edge");
    }
}

/// B0: the builder API. `CALLS` symbolic calls `(kind, from, to)` over `n`
/// functions - self-edges, repeats and reversed pairs included - checked call
/// by call against a reference closure (C16), then `add_*_edges` batch forms.
pub const CALLS: usize = 4;

pub fn h_builder(n: usize) {
    use fn_graph::FnGraphBuilder;
    let mut b = FnGraphBuilder::<Fx>::new();
    let mut i = 0;
    while i < N {
        if i < n {
            let id = b.add_fn(Fx { id: i as u8, acc: [ACC_NONE; K] });
            vassert!(id.index() == i, "C11: add_fn did not return consecutive ids");
        }
        i += 1;
    }
    // reference state: kind[a][b] (0 none, 1 logic, 2 contains) and reflexive closure
    let mut kind = [[0u8; N]; N];
    let mut order = [(0u8, 0u8); CALLS];
    let mut count = 0usize;
    let mut c = 0;
    while c < CALLS {
        let a = nd::below(n as u8) as usize;
        let bb = nd::below(n as u8) as usize;
        let contains = nd::boolean();
        // would the edge close a cycle with the accepted edges? (path b ->* a, a == b included)
        let mut p = [[false; N]; N];
        let mut x = 0;
        while x < N {
            p[x][x] = true;
            let mut y = 0;
            while y < N {
                if kind[x][y] != 0 {
                    p[x][y] = true;
                }
                y += 1;
            }
            x += 1;
        }
        warshall(&mut p);
        // Dispatch over concrete endpoints: no symbolic array index reaches the code under test.
        let mut x = 0;
        while x < N {
            let mut y = 0;
            while y < N {
                if x == a && y == bb {
                    let would_cycle = p[y][x];
                    let r = if contains {
                        b.add_contains_edge(ni(x), ni(y))
                    } else {
                        b.add_logic_edge(ni(x), ni(y))
                    };
                    vassert!(r.is_err() == would_cycle, "C16: edge rejected although it closes no cycle, or accepted although it closes one");
                    if let Ok(e) = r {
                        if kind[x][y] == 0 {
                            vassert!(e.index() == count, "C16: a new edge did not get the next edge id");
                            let mut k = 0;
                            while k < CALLS {
                                if k == count {
                                    order[k] = (x as u8, y as u8);
                                }
                                k += 1;
                            }
                            count += 1;
                        }
                        kind[x][y] = if contains { 2 } else { 1 };
                    }
                }
                y += 1;
            }
            x += 1;
        }
        c += 1;
    }
    vcover!(true, "reach: all builder calls returned");
    vcover!(count == 3, "three distinct edges accepted");
    // the builder's graph has exactly the accepted edges, once each, last kind wins
    let g = fn_graph::verif_hooks::builder_graph(&b);
    let edges = g.raw_edges();
    vassert!(edges.len() == count, "C16: built graph does not have exactly one edge per accepted ordered pair");
    let mut e = 0;
    while e < CALLS {
        if e < count && e < edges.len() {
            let (a, bb) = order[e];
            vassert!(edges[e].source().index() == a as usize && edges[e].target().index() == bb as usize, "C16: accepted edge lost or reordered");
            let mut x = 0;
            while x < N {
                let mut y = 0;
                while y < N {
                    if x == a as usize && y == bb as usize {
                        vassert!(edges[e].weight == kind_of(kind[x][y] - 1), "C16: the most recently given kind did not win");
                    }
                    y += 1;
                }
                x += 1;
            }
        }
        e += 1;
    }
}

/// B0b: the batch forms stop at the first rejected edge and keep the earlier ones.
pub fn h_builder_batch(n: usize) {
    use fn_graph::FnGraphBuilder;
    let mut b = FnGraphBuilder::<Fx>::new();
    let mut i = 0;
    while i < N {
        if i < n {
            b.add_fn(Fx { id: i as u8, acc: [ACC_NONE; K] });
        }
        i += 1;
    }
    let (a0, b0) = (nd::below(n as u8) as usize, nd::below(n as u8) as usize);
    let (a1, b1) = (nd::below(n as u8) as usize, nd::below(n as u8) as usize);
    let (a2, b2) = (nd::below(n as u8) as usize, nd::below(n as u8) as usize);
    let first_ok = b.add_logic_edge(ni(a0), ni(b0)).is_ok();
    vassert!(first_ok == (a0 != b0), "C16: first edge: only a self-edge may be rejected");
    let contains = nd::boolean();
    let r = if contains {
        b.add_contains_edges([(ni(a1), ni(b1)), (ni(a2), ni(b2))]).map(|_| ())
    } else {
        b.add_logic_edges([(ni(a1), ni(b1)), (ni(a2), ni(b2))]).map(|_| ())
    };
    // reference
    let mut kind = [[0u8; N]; N];
    if first_ok {
        kind[a0][b0] = 1;
    }
    let k = if contains { 2 } else { 1 };
    let cyc = |kind: &[[u8; N]; N], a: usize, bb: usize| {
        let mut p = [[false; N]; N];
        let mut x = 0;
        while x < N {
            p[x][x] = true;
            let mut y = 0;
            while y < N {
                if kind[x][y] != 0 {
                    p[x][y] = true;
                }
                y += 1;
            }
            x += 1;
        }
        warshall(&mut p);
        p[bb][a]
    };
    let c1 = cyc(&kind, a1, b1);
    if !c1 {
        kind[a1][b1] = k;
    }
    let c2 = if c1 { false } else { cyc(&kind, a2, b2) };
    if !c1 && !c2 {
        kind[a2][b2] = k;
    }
    vassert!(r.is_err() == (c1 || c2), "C16: batch form result differs from edge-by-edge acceptance");
    let g = fn_graph::verif_hooks::builder_graph(&b);
    let mut want = 0;
    let mut x = 0;
    while x < N {
        let mut y = 0;
        while y < N {
            if kind[x][y] != 0 {
                want += 1;
                let f = g.find_edge(ni(x), ni(y));
                vassert!(f.is_some(), "C16: batch form lost an edge accepted before the rejected one");
                if let Some(f) = f {
                    vassert!(g.edge_weight(f) == Some(&kind_of(kind[x][y] - 1)), "C16: batch form edge has the wrong kind");
                }
            }
            y += 1;
        }
        x += 1;
    }
    vassert!(g.edge_count() == want, "C16: batch form left an edge behind after the rejected one");
    vcover!(true, "reach: batch call returned and the graph was inspected");
    vcover!(r.is_err() && want >= 1, "batch rejected with earlier edges kept");
}

/// Cost probes (development only).
pub fn probe_user_graph(n: usize) {
    let ug = sym_user_graph(n, true);
    assert!(ug.g.node_count() == n);
}
pub fn probe_augment_only(n: usize) {
    let ug = sym_user_graph(n, true);
    let UserGraph { mut g, user, user_edges: _, user_edge_count: _ } = ug;
    let want = longest_chain(&user);
    let mut ranks = Vec::with_capacity(N);
    let mut i = 0;
    while i < N {
        if i < n {
            ranks.push(Rank(want[i]));
        }
        i += 1;
    }
    fn_graph::verif_hooks::augment(&mut g, &ranks);
    assert!(g.node_count() == n);
}

pub fn probe_conflict_pred() {
    use fn_graph::DataAccessDyn;
    let a = Fx { id: 0, acc: [nd::below(3), nd::below(3)] };
    let b = Fx { id: 1, acc: [nd::below(3), nd::below(3)] };
    let (ab, am) = (a.borrows(), a.borrow_muts());
    let (bb, bm) = (b.borrows(), b.borrow_muts());
    let c = ab.iter().any(|l| bm.iter().any(|r| l == r))
        || am.iter().any(|l| bb.iter().any(|r| l == r))
        || am.iter().any(|l| bm.iter().any(|r| l == r));
    assert!(c == conflict(&a, &b));
}
pub fn probe_typeid_eq() {
    let x = if nd::boolean() { core::any::TypeId::of::<crate::graphs::D0>() } else { core::any::TypeId::of::<crate::graphs::D1>() };
    let y = if nd::boolean() { core::any::TypeId::of::<crate::graphs::D0>() } else { core::any::TypeId::of::<crate::graphs::D1>() };
    assert!((x == y) || true);
    kani_cover_eq(x == y);
}
fn kani_cover_eq(b: bool) {
    vcover!(b, "equal");
    vcover!(!b, "unequal");
}

/// B4: `FnGraphBuilder::build()` end to end from a symbolic call sequence
/// (2 functions: every ordered pair absent / Logic / Contains, symbolic access
/// declarations): the representation invariant the run-side harnesses assume
/// (RepInv), ranks, and the augmentation oracles on the composed result.
pub fn h_build(n: usize, with_acc: bool) {
    use fn_graph::FnGraphBuilder;
    let mut b = FnGraphBuilder::<Fx>::new();
    let mut i = 0;
    while i < N {
        if i < n {
            let mut acc = [ACC_NONE; K];
            if with_acc {
                let mut d = 0;
                while d < K {
                    acc[d] = nd::below(3);
                    d += 1;
                }
            }
            b.add_fn(Fx { id: i as u8, acc });
        }
        i += 1;
    }
    let mut user = [[0u8; N]; N];
    let mut cnt = 0usize;
    let mut a = 0;
    while a < N {
        let mut bb = 0;
        while bb < N {
            if a != bb && a < n && bb < n {
                let c = nd::below(3);
                let r = match c {
                    1 => Some(b.add_logic_edge(ni(a), ni(bb))),
                    2 => Some(b.add_contains_edge(ni(a), ni(bb))),
                    _ => None,
                };
                if let Some(Ok(_)) = r {
                    user[a][bb] = c;
                    cnt += 1;
                }
            }
            bb += 1;
        }
        a += 1;
    }
    let want = longest_chain(&user);
    let mut up = [[false; N]; N];
    let mut x = 0;
    while x < N {
        up[x][x] = true;
        let mut y = 0;
        while y < N {
            if user[x][y] != 0 {
                up[x][y] = true;
            }
            y += 1;
        }
        x += 1;
    }
    warshall(&mut up);

    let g = b.build();

    check_built_edges(&g.graph, n, &user, cnt, &up, &want);
    // ranks() = longest chain
    let ranks = g.ranks();
    vassert!(ranks.len() == n, "C13: ranks() does not have one entry per function");
    let mut i = 0;
    while i < N {
        if i < n && i < ranks.len() {
            vassert!(ranks[i] == Rank(want[i]), "C13: ranks() of the built graph differs from the longest dependency chain");
        }
        i += 1;
    }
    check_repinv(&g, n);
    vcover!(true, "reach: build() returned and every oracle was evaluated");
}

/// RepInv: the scheduling structures mirror the graph (same edges, same order,
/// same kinds; reversed copy), predecessor counts are the degrees over all kinds.
pub fn check_repinv(g: &fn_graph::FnGraph<Fx>, n: usize) {
    let (gs, gr, counts) = fn_graph::verif_hooks::fn_graph_parts(g);
    let edges = g.graph.raw_edges();
    let (es, er) = (gs.raw_edges(), gr.raw_edges());
    vassert!(gs.node_count() == n && gr.node_count() == n, "C02: scheduling structure lost a function");
    vassert!(es.len() == edges.len() && er.len() == edges.len(), "C02: scheduling structure does not have exactly the edges of the graph");
    let mut indeg = [0usize; N];
    let mut outdeg = [0usize; N];
    let mut e = 0;
    while e < daggy_max_edges() {
        if e < edges.len() && e < es.len() && e < er.len() {
            let (s, t) = (edges[e].source().index(), edges[e].target().index());
            vassert!(es[e].source().index() == s && es[e].target().index() == t && es[e].weight == edges[e].weight, "C02: forward scheduling structure differs from the graph (an ordering edge would be ignored)");
            vassert!(er[e].source().index() == t && er[e].target().index() == s && er[e].weight == edges[e].weight, "C02: reverse scheduling structure is not the reversed graph");
            let mut x = 0;
            while x < N {
                if x == t {
                    indeg[x] += 1;
                }
                if x == s {
                    outdeg[x] += 1;
                }
                x += 1;
            }
        }
        e += 1;
    }
    vassert!(counts.incoming().len() == n && counts.outgoing().len() == n, "C02: predecessor counts do not have one entry per function");
    let mut x = 0;
    while x < N {
        if x < n && x < counts.incoming().len() && x < counts.outgoing().len() {
            vassert!(counts.incoming()[x] == indeg[x], "C02: incoming count differs from the number of incoming edges (all kinds)");
            vassert!(counts.outgoing()[x] == outdeg[x], "C02: outgoing count differs from the number of outgoing edges (all kinds)");
        }
        x += 1;
    }
}

/// B4b: building the same call sequence twice yields equal graphs with equal
/// ranks; changing one function, one endpoint or one kind yields an unequal graph (C12).
pub fn h_build_twice(n: usize) {
    use fn_graph::FnGraphBuilder;
    // one symbolic call sequence: per ordered pair absent / Logic / Contains; symbolic access
    let mut acc = [[ACC_NONE; K]; N];
    let mut i = 0;
    while i < N {
        let mut d = 0;
        while d < K {
            acc[i][d] = nd::below(3);
            d += 1;
        }
        i += 1;
    }
    let mut calls = [[0u8; N]; N];
    let mut a = 0;
    while a < N {
        let mut bb = 0;
        while bb < N {
            if a != bb && a < n && bb < n {
                calls[a][bb] = nd::below(3);
            }
            bb += 1;
        }
        a += 1;
    }
    // the variation applied to the third build: 0 none, 1 a function payload, 2 a kind
    let vary = nd::below(3);
    let vf = nd::below(n as u8) as usize;
    let build = |variant: bool| {
        let mut b = FnGraphBuilder::<Fx>::new();
        let mut i = 0;
        while i < N {
            if i < n {
                let mut a = acc[i];
                let mut id = i as u8;
                if variant && vary == 1 && i == vf {
                    // a different function with the same access declarations
                    id = 100 + i as u8;
                    a = acc[i];
                }
                b.add_fn(Fx { id, acc: a });
            }
            i += 1;
        }
        let mut changed_kind = false;
        let mut a = 0;
        while a < N {
            let mut bb = 0;
            while bb < N {
                if a != bb && a < n && bb < n {
                    let mut c = calls[a][bb];
                    if variant && vary == 2 && c != 0 && !changed_kind {
                        c = 3 - c;
                        changed_kind = true;
                    }
                    let _ = match c {
                        1 => Some(b.add_logic_edge(ni(a), ni(bb))),
                        2 => Some(b.add_contains_edge(ni(a), ni(bb))),
                        _ => None,
                    };
                }
                bb += 1;
            }
            a += 1;
        }
        (b.build(), changed_kind)
    };
    let (g1, _) = build(false);
    let (g2, _) = build(false);
    vassert!(g1 == g2, "C12: building the same sequence of builder calls twice yields unequal graphs");
    vassert!(g1.ranks() == g2.ranks(), "C12: building the same sequence twice yields different ranks");
    let (g3, changed_kind) = build(true);
    if vary == 1 || (vary == 2 && changed_kind) {
        vassert!(g1 != g3, "C12: graphs built from different functions or edge kinds compare equal");
    } else {
        vassert!(g1 == g3, "C12: equal call sequences compare unequal");
    }
    vcover!(vary == 2 && changed_kind, "reach: a kind was changed");
    vcover!(true, "reach: three graphs were built and compared");
}

/// B4c: `FnGraph::eq` (C12, last clause): two built graphs assembled from the
/// same symbolic description compare equal; a description that differs in one
/// function, one edge kind, one edge direction or one missing edge compares unequal.
pub fn h_eq(n: usize) {
    use fn_graph::{EdgeCounts, FnGraph};
    // description: per unordered pair {i, j}: 0 none, 1 i->j, 2 j->i, with a kind; per node an id payload
    let mut dir = [[0u8; N]; N];
    let mut kind = [[0u8; N]; N];
    let mut i = 0;
    while i < N {
        let mut j = i + 1;
        while j < N {
            if j < n {
                dir[i][j] = nd::below(3);
                kind[i][j] = nd::below(3);
            }
            j += 1;
        }
        i += 1;
    }
    // the single variation: 0 none, 1 payload of function vf, 2 kind of pair vp, 3 direction of pair vp, 4 pair vp removed
    let vary = nd::below(5);
    let vf = nd::below(n as u8) as usize;
    let vi = nd::below(n as u8) as usize;
    let vj = nd::below(n as u8) as usize;
    nd::assume(vi < vj);
    let mut effective = false;
    let mk = |variant: bool, effective: &mut bool| -> FnGraph<Fx> {
        let mut g = Dag::<Fx, Edge, FnIdInner>::new();
        let mut gs = Dag::<(), Edge, FnIdInner>::new();
        let mut gr = Dag::<(), Edge, FnIdInner>::new();
        let mut a = 0;
        while a < N {
            if a < n {
                let id = if variant && vary == 1 && a == vf { 50 + a as u8 } else { a as u8 };
                if variant && vary == 1 && a == vf {
                    *effective = true;
                }
                g.add_node(Fx { id, acc: [ACC_NONE; K] });
                gs.add_node(());
                gr.add_node(());
            }
            a += 1;
        }
        let mut a = 0;
        while a < N {
            let mut b = a + 1;
            while b < N {
                if b < n {
                    let mut d = dir[a][b];
                    let mut k = kind[a][b];
                    if variant && a == vi && b == vj && d != 0 {
                        if vary == 2 {
                            k = (k + 1) % 3;
                            *effective = true;
                        } else if vary == 3 {
                            d = 3 - d;
                            *effective = true;
                        } else if vary == 4 {
                            d = 0;
                            *effective = true;
                        }
                    }
                    if d != 0 {
                        let (x, y) = if d == 1 { (a, b) } else { (b, a) };
                        let r = g.add_edge(ni(x), ni(y), kind_of(k));
                        nd::assume(r.is_ok());
                        let _ = gs.add_edge(ni(x), ni(y), kind_of(k));
                        let _ = gr.add_edge(ni(y), ni(x), kind_of(k));
                    }
                }
                b += 1;
            }
            a += 1;
        }
        fn_graph::verif_hooks::fn_graph_from_parts(g, gs, gr, Vec::new(), EdgeCounts::new(Vec::new(), Vec::new()))
    };
    let mut unused = false;
    let g1 = mk(false, &mut unused);
    let g2 = mk(false, &mut unused);
    let g3 = mk(true, &mut effective);
    vassert!(g1 == g2, "C12: graphs with equal functions and equal edges compare unequal");
    if effective {
        vassert!(g1 != g3, "C12: graphs that differ in a function, an edge endpoint or an edge kind compare equal");
    } else {
        vassert!(g1 == g3, "C12: graphs with equal functions and equal edges compare unequal");
    }
    vcover!(effective && vary == 3, "reach: an edge direction was flipped");
    vcover!(true, "reach: three graphs compared");
}
