//! B6: `GraphInfo::from_graph`, `iter`, `iter_rev` (C17, without the
//! serialisation clause) over a fully symbolic built graph.
#![cfg(feature = "graph_info")]

use fn_graph::GraphInfo;

use crate::exec::{self, st, N};
use crate::graphs::sym_run_graph;
use crate::{vassert, vcover};

pub fn h_graph_info(n: usize) {
    exec::reset();
    let g = sym_run_graph(n);
    let gi = GraphInfo::from_graph(&g, |f| 10 + f.id);
    // nodes: insertion order, mapped through the caller's function
    let mut k = 0usize;
    for (id, info) in gi.iter_insertion_with_indices() {
        vassert!(id.index() == k, "C17: GraphInfo nodes are not in insertion order");
        vassert!(*info as usize == 10 + k, "C17: GraphInfo node was not mapped through the caller's function");
        k += 1;
    }
    vassert!(k == n, "C17: GraphInfo does not have one node per function");
    // edges: exactly the built graph's edges, same order, same kinds (Data included)
    let (ea, eb) = (g.graph.raw_edges(), gi.graph.raw_edges());
    vassert!(ea.len() == eb.len(), "C17: GraphInfo does not have exactly the edges of the graph");
    let mut e = 0;
    while e < N * (N - 1) / 2 + 2 {
        if e < ea.len() && e < eb.len() {
            vassert!(ea[e].source().index() == eb[e].source().index() && ea[e].target().index() == eb[e].target().index(), "C17: GraphInfo edge endpoints differ from the graph");
            vassert!(ea[e].weight == eb[e].weight, "C17: GraphInfo edge kind differs from the graph");
        }
        e += 1;
    }
    // iter: topological; iter_rev: reverse topological, over all nodes
    let s = st();
    let mut pos = [N; N];
    let mut k = 0usize;
    for info in gi.iter() {
        let v = (*info - 10) as usize;
        let mut x = 0;
        while x < N {
            if x == v {
                vassert!(pos[x] == N, "C17: GraphInfo::iter yields a node twice");
                pos[x] = k;
            }
            x += 1;
        }
        k += 1;
    }
    vassert!(k == n, "C17: GraphInfo::iter does not visit every node");
    let mut rpos = [N; N];
    let mut k = 0usize;
    for info in gi.iter_rev() {
        let v = (*info - 10) as usize;
        let mut x = 0;
        while x < N {
            if x == v {
                vassert!(rpos[x] == N, "C17: GraphInfo::iter_rev yields a node twice");
                rpos[x] = k;
            }
            x += 1;
        }
        k += 1;
    }
    vassert!(k == n, "C17: GraphInfo::iter_rev does not visit every node");
    let mut u = 0;
    while u < N {
        let mut v = 0;
        while v < N {
            if u < n && v < n && s.edge[u][v] {
                vassert!(pos[u] < pos[v], "C17: GraphInfo::iter is not topological");
                vassert!(rpos[v] < rpos[u], "C17: GraphInfo::iter_rev is not reverse topological");
            }
            v += 1;
        }
        u += 1;
    }
    vcover!(true, "reach: GraphInfo built and iterated");
    vcover!(ea.len() >= 2, "graph with two edges");
}
