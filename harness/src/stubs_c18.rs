//! VecDeque stubs for the C18 harness `rankc_*`: the same FIFO model as
//! `stubs.rs`, plus the C18 oracle evaluated at every pop - the queue of the rank
//! calculation holds function ids, so "no function is popped more often than
//! there are functions" can be asserted the moment it is violated, without
//! having to run a (possibly much longer) calculation to its end.

use std::collections::VecDeque;

use crate::exec::N;

pub const RING: usize = 32;
static mut Q: [usize; RING] = [0; RING];
static mut HEAD: usize = 0;
static mut LEN: usize = 0;
static mut TAKEN: usize = 0;
static mut POPS: [usize; N] = [0; N];

fn count_pop(id: usize) {
    let mut v = 0;
    while v < N {
        if v == id {
            unsafe {
                POPS[v] += 1;
                assert!(POPS[v] <= N, "C18: rank calculation visited a function more often than there are functions");
            }
        }
        v += 1;
    }
}

#[cfg(kani)]
pub fn vd_push_back<T, A: std::alloc::Allocator>(_this: &mut VecDeque<T, A>, v: T) {
    assert!(core::mem::size_of::<T>() == core::mem::size_of::<usize>(), "VecDeque stub: item must be word sized");
    assert!(!core::mem::needs_drop::<T>(), "VecDeque stub: item must not need drop");
    // SAFETY: same size, no drop glue; the value is moved into the ring.
    let x: usize = unsafe { core::mem::transmute_copy(&v) };
    core::mem::forget(v);
    unsafe {
        assert!(LEN < RING, "model bound exceeded: VecDeque stub ring");
        let i = (HEAD + LEN) % RING;
        Q[i] = x;
        LEN += 1;
    }
}

#[cfg(kani)]
pub fn vd_pop_front<T, A: std::alloc::Allocator>(this: &mut VecDeque<T, A>) -> Option<T> {
    unsafe {
        if TAKEN < this.len() {
            let r = this.get(TAKEN).map(|p| core::ptr::read(p));
            TAKEN += 1;
            if let Some(x) = r.as_ref() {
                let id: usize = core::mem::transmute_copy(x);
                count_pop(id);
            }
            return r;
        }
        if LEN == 0 {
            return None;
        }
        let x = Q[HEAD];
        HEAD = (HEAD + 1) % RING;
        LEN -= 1;
        count_pop(x);
        // SAFETY: the word was produced from a `T` by `vd_push_back`.
        Some(core::mem::transmute_copy(&x))
    }
}
