//! B5: sequential iteration (C14) over an arbitrary built graph (RepInv graph,
//! Data edges included): `iter`, `iter_rev`, `toposort`, `map`, `fold`,
//! `try_fold`, `for_each`, `try_for_each`, `iter_insertion*`.

use daggy::Walker;

use crate::exec::{self, st, N};
use crate::graphs::{shape_run_graph, sym_run_graph, Fx};
use crate::nd;
use crate::{vassert, vcover};

/// Records a visit order and checks it is a permutation that respects every
/// edge of the built graph (`rev`: against every edge).
struct Order {
    seq: [u8; N],
    len: usize,
}
impl Order {
    fn new() -> Self {
        Order { seq: [0; N], len: 0 }
    }
    fn push(&mut self, id: u8) {
        vassert!(self.len < N, "C14: more functions visited than the graph has");
        if self.len < N {
            // constant-index write: no symbolic array index
            let mut k = 0;
            while k < N {
                if k == self.len {
                    self.seq[k] = id;
                }
                k += 1;
            }
            self.len += 1;
        }
    }
    fn check(&self, n: usize, rev: bool) {
        vassert!(self.len == n, "C14: not every function was visited exactly once");
        // position of every function
        let mut pos = [N; N];
        let mut k = 0;
        while k < N {
            if k < self.len {
                let mut v = 0;
                while v < N {
                    if self.seq[k] as usize == v {
                        vassert!(pos[v] == N, "C14: a function was visited twice");
                        pos[v] = k;
                    }
                    v += 1;
                }
            }
            k += 1;
        }
        let s = st();
        let mut u = 0;
        while u < N {
            let mut v = 0;
            while v < N {
                if u < n && v < n && s.edge[u][v] {
                    if rev {
                        vassert!(pos[v] < pos[u], "C14: iter_rev visited a function before one of its successors");
                    } else {
                        vassert!(pos[u] < pos[v], "C14: a function was visited before one of its predecessors");
                    }
                }
                v += 1;
            }
            u += 1;
        }
    }
    fn check_insertion(&self, n: usize) {
        vassert!(self.len == n, "C14: iter_insertion did not visit every function");
        let mut k = 0;
        while k < N {
            if k < self.len {
                vassert!(self.seq[k] as usize == k, "C14: iter_insertion does not follow insertion order");
            }
            k += 1;
        }
    }
}

pub fn h_iter(n: usize, shape: Option<&[(u8, u8, u8)]>) {
    exec::reset();
    let mut g = match shape {
        Some(sh) => shape_run_graph(n, sh),
        None => sym_run_graph(n),
    };
    // iter / iter_rev / toposort
    let mut o = Order::new();
    for f in g.iter() {
        o.push(f.id);
    }
    o.check(n, false);
    let mut o = Order::new();
    for f in g.iter_rev() {
        o.push(f.id);
    }
    o.check(n, true);
    let mut o = Order::new();
    {
        let (gs, _, _) = fn_graph::verif_hooks::fn_graph_parts(&g);
        let mut t = g.toposort();
        let mut k = 0;
        while k < N + 1 {
            if let Some(id) = t.walk_next(gs) {
                o.push(id.index() as u8);
            }
            k += 1;
        }
    }
    o.check(n, false);
    // iter_insertion family
    let mut o = Order::new();
    for f in g.iter_insertion() {
        o.push(f.id);
    }
    o.check_insertion(n);
    let mut o = Order::new();
    for (id, f) in g.iter_insertion_with_indices() {
        vassert!(id.index() == f.id as usize, "C14: iter_insertion_with_indices pairs a function with the wrong id");
        o.push(f.id);
    }
    o.check_insertion(n);
    let mut o = Order::new();
    for f in g.iter_insertion_mut() {
        o.push(f.id);
    }
    o.check_insertion(n);
    // map / fold / for_each
    let mut o = Order::new();
    for id in g.map(|f| f.id) {
        o.push(id);
    }
    o.check(n, false);
    let o = g.fold(Order::new(), |mut o, f| {
        o.push(f.id);
        o
    });
    o.check(n, false);
    let mut o = Order::new();
    g.for_each(|f| o.push(f.id));
    o.check(n, false);
    // try_fold / try_for_each: symbolic failing position (n = never)
    let fail_at = nd::below(N as u8 + 1) as usize;
    let r = g.try_fold(Order::new(), |mut o, f| {
        if o.len == fail_at {
            Err(f.id)
        } else {
            o.push(f.id);
            Ok(o)
        }
    });
    match r {
        Ok(o) => {
            vassert!(fail_at >= n, "C14: try_fold returned Ok although a call failed");
            o.check(n, false);
        }
        Err(_) => {
            vassert!(fail_at < n, "C14: try_fold returned Err although no call failed");
        }
    }
    let mut calls = 0usize;
    let mut o = Order::new();
    let r = g.try_for_each(|f| {
        calls += 1;
        if o.len == fail_at {
            Err(f.id)
        } else {
            o.push(f.id);
            Ok(())
        }
    });
    if fail_at < n {
        vassert!(r.is_err(), "C14: try_for_each returned Ok although a call failed");
        vassert!(calls == fail_at + 1, "C14: try_for_each invoked a function after the first error");
    } else {
        vassert!(r.is_ok(), "C14: try_for_each returned Err although no call failed");
        o.check(n, false);
    }
    vcover!(true, "reach: every sequential iteration API was run");
    vcover!(fail_at < n, "a try_* call failed");
}
