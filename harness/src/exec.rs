//! The controlled executor: trace state, user futures that complete only when
//! the harness releases them, and the flag waker.
//!
//! All state lives in one `static mut` (single task, no heap, no `RefCell`).

use core::future::Future;
use core::pin::Pin;
use core::task::{Context, Poll, RawWaker, RawWakerVTable, Waker};

use crate::nd;
use crate::{vassert, vcover, vlog};

#[cfg(feature = "n2")]
pub const N: usize = 2;
#[cfg(all(feature = "n3", not(feature = "n2")))]
pub const N: usize = 3;
#[cfg(all(feature = "n4", not(any(feature = "n2", feature = "n3"))))]
pub const N: usize = 4;
#[cfg(all(feature = "n5", not(any(feature = "n2", feature = "n3", feature = "n4"))))]
pub const N: usize = 5;
#[cfg(not(any(feature = "n2", feature = "n3", feature = "n4", feature = "n5")))]
pub const N: usize = 3;

/// How the user future of a function resolves.
#[derive(Clone, Copy, PartialEq, Eq, Debug)]
pub enum Res {
    Ok,
    Fail,
}

pub struct St {
    /// Number of functions in the graph under test.
    pub n: usize,
    /// The run walks the graph in reverse.
    pub rev: bool,
    /// `edge[u][v]`: the built graph has an edge u -> v (any kind).
    pub edge: [[bool; N]; N],
    /// `path[u][v]`: non-empty path u ->+ v in the built graph.
    pub path: [[bool; N]; N],
    /// `conflict[u][v]`: u and v declare conflicting data access.
    pub conflict: [[bool; N]; N],
    /// Concurrency limit in force (0 = unbounded).
    pub limit: usize,
    /// Logical clock; every Start / End / signal event takes a fresh value >= 1.
    pub clock: u8,
    pub start: [u8; N],
    pub end: [u8; N],
    pub starts: [u8; N],
    pub released: [bool; N],
    pub fail: [bool; N],
    pub wakers: [Option<Waker>; N],
    pub waiting: [bool; N],
    /// Function ids in Start order.
    pub order: [u8; N],
    pub order_len: usize,
    /// The flag the harness waker sets.
    pub woken: bool,
    pub polls: u8,
    /// Clock value at which the interrupt signal was sent (0 = never).
    pub sig: u8,
    /// Largest number of user futures in flight seen so far.
    pub max_in_flight: u8,
}

impl St {
    pub const fn new() -> Self {
        St {
            n: 0,
            rev: false,
            edge: [[false; N]; N],
            path: [[false; N]; N],
            conflict: [[false; N]; N],
            limit: 0,
            clock: 0,
            start: [0; N],
            end: [0; N],
            starts: [0; N],
            released: [false; N],
            fail: [false; N],
            wakers: [const { None }; N],
            waiting: [false; N],
            order: [0; N],
            order_len: 0,
            woken: false,
            polls: 0,
            sig: 0,
            max_in_flight: 0,
        }
    }
    /// u must finish before v may start, in the direction walked.
    pub fn pred(&self, u: usize, v: usize) -> bool {
        if self.rev {
            self.edge[v][u]
        } else {
            self.edge[u][v]
        }
    }
    /// v is ordered after u (transitively) in the direction walked.
    pub fn after(&self, u: usize, v: usize) -> bool {
        if self.rev {
            self.path[v][u]
        } else {
            self.path[u][v]
        }
    }
    pub fn in_flight(&self, v: usize) -> bool {
        self.start[v] != 0 && self.end[v] == 0
    }
    pub fn in_flight_count(&self) -> usize {
        let mut c = 0;
        let mut v = 0;
        while v < N {
            if v < self.n && self.in_flight(v) {
                c += 1;
            }
            v += 1;
        }
        c
    }
    pub fn started_count(&self) -> usize {
        let mut c = 0;
        let mut v = 0;
        while v < N {
            if v < self.n && self.start[v] != 0 {
                c += 1;
            }
            v += 1;
        }
        c
    }
    /// No-op marker kept for symmetry with the concurrent driver.
    pub fn woken_since_clear(&self) {}
    pub fn tick(&mut self) -> u8 {
        self.clock += 1;
        self.clock
    }
    /// Computes `path` from `edge` (Warshall, fixed bounds).
    pub fn close_paths(&mut self) {
        self.path = self.edge;
        let mut k = 0;
        while k < N {
            let mut i = 0;
            while i < N {
                let mut j = 0;
                while j < N {
                    if self.path[i][k] && self.path[k][j] {
                        self.path[i][j] = true;
                    }
                    j += 1;
                }
                i += 1;
            }
            k += 1;
        }
    }
}

static mut ST: St = St::new();
static mut ST2: St = St::new();
static mut CUR: bool = false;

/// The executor state of the run currently selected (see `select`). Single
/// task: no aliasing across calls.
#[allow(clippy::mut_from_ref)]
pub fn st() -> &'static mut St {
    // SAFETY: single-threaded harness; references are not held across calls
    // that re-enter `st()` mutably in a conflicting way.
    unsafe {
        if CUR {
            &mut *core::ptr::addr_of_mut!(ST2)
        } else {
            &mut *core::ptr::addr_of_mut!(ST)
        }
    }
}

/// Selects which of the two run traces `st()` refers to (harnesses with two runs).
pub fn select(second: bool) {
    unsafe { CUR = second }
}

pub fn reset() {
    select(true);
    *st() = St::new();
    select(false);
    *st() = St::new();
    clear_woken();
}

/// Starts a new run on the same graph: the trace is cleared, what is known
/// about the graph (edges, paths, conflicts, order) is kept.
pub fn reset_trace() {
    let s = st();
    s.clock = 0;
    s.start = [0; N];
    s.end = [0; N];
    s.starts = [0; N];
    s.released = [false; N];
    s.fail = [false; N];
    s.waiting = [false; N];
    s.order = [0; N];
    s.order_len = 0;
    s.polls = 0;
    s.sig = 0;
    s.max_in_flight = 0;
}

/// Copies what is known about the graph from the first run state to the second.
pub fn copy_graph_to_second() {
    select(false);
    let (n, rev, edge, path, conflict) = {
        let s = st();
        (s.n, s.rev, s.edge, s.path, s.conflict)
    };
    select(true);
    let s = st();
    s.n = n;
    s.rev = rev;
    s.edge = edge;
    s.path = path;
    s.conflict = conflict;
    select(false);
}

/// Clears the wake-up flag (before each poll).
pub fn clear_woken() {
    st().woken = false;
    #[cfg(feature = "model")]
    tokio::model::clear();
}

/// Has any wake-up of the polling task been signalled since the last clear?
/// Model build: the model primitives signal through `tokio::model`; real
/// build: through the flag waker.
pub fn is_woken() -> bool {
    #[cfg(feature = "model")]
    {
        st().woken || tokio::model::woken()
    }
    #[cfg(not(feature = "model"))]
    {
        st().woken
    }
}

// ---------------------------------------------------------------------------
// Flag waker
// ---------------------------------------------------------------------------

fn w_clone(_: *const ()) -> RawWaker {
    RawWaker::new(core::ptr::null(), &VTABLE)
}
fn w_wake(_: *const ()) {
    st().woken = true;
}
fn w_drop(_: *const ()) {}
static VTABLE: RawWakerVTable = RawWakerVTable::new(w_clone, w_wake, w_wake, w_drop);

pub fn flag_waker() -> Waker {
    // SAFETY: the vtable functions ignore the data pointer.
    unsafe { Waker::from_raw(RawWaker::new(core::ptr::null(), &VTABLE)) }
}

// ---------------------------------------------------------------------------
// User future
// ---------------------------------------------------------------------------

/// The future the user closure returns for function `id`. It records Start on
/// its first poll, completes only after the harness released `id`, and carries
/// the ordering oracles that are decidable at the moment a function starts.
pub struct UserFut {
    id: usize,
    started: bool,
}

impl UserFut {
    pub fn new(id: u8) -> Self {
        UserFut { id: id as usize, started: false }
    }
}

/// Everything that must hold at the instant function `v` is handed to the caller.
pub fn on_start(v: usize) {
    let s = st();
    vassert!(v < s.n, "C03: unknown function id handed out");
    vassert!(s.starts[v] == 0, "C03: function handed to the caller twice in one run");
    let mut u = 0;
    while u < N {
        if u < s.n && u != v {
            if s.pred(u, v) {
                vassert!(s.end[u] != 0, "C02: function started before a predecessor finished");
            }
            if s.conflict[u][v] {
                vassert!(!s.in_flight(u), "C01: conflicting functions in flight together");
            }
            if s.after(u, v) {
                vassert!(!(s.fail[u] && s.start[u] != 0), "C07: function ordered after a failed one was started");
            }
        }
        u += 1;
    }
    s.starts[v] += 1;
    let t = s.tick();
    s.start[v] = t;
    vlog!("t{}: start {}", t, v);
    s.order[s.order_len] = v as u8;
    s.order_len += 1;
    let c = s.in_flight_count();
    if c as u8 > s.max_in_flight {
        s.max_in_flight = c as u8;
    }
    if s.limit >= 1 {
        vassert!(c <= s.limit, "C10: more user futures in flight than the limit");
    }
}

pub fn on_end(v: usize) {
    let s = st();
    let t = s.tick();
    s.end[v] = t;
    vlog!("t{}: end {}", t, v);
}

impl Future for UserFut {
    type Output = Res;
    fn poll(mut self: Pin<&mut Self>, cx: &mut Context<'_>) -> Poll<Res> {
        let id = self.id;
        if !self.started {
            self.started = true;
            on_start(id);
        }
        let s = st();
        if s.released[id] {
            if s.end[id] == 0 {
                on_end(id);
            }
            Poll::Ready(if s.fail[id] { Res::Fail } else { Res::Ok })
        } else {
            // Model build: one task, so registering the waker is a flag (see
            // `tokio::model`); real build: keep the real waker.
            #[cfg(feature = "model")]
            {
                let _ = cx;
                s.waiting[id] = true;
            }
            #[cfg(not(feature = "model"))]
            {
                s.wakers[id] = Some(cx.waker().clone());
            }
            Poll::Pending
        }
    }
}

/// Lets function `v` complete at its next poll and wakes whoever waits for it.
pub fn release(v: usize) {
    let s = st();
    s.released[v] = true;
    #[cfg(feature = "model")]
    if s.waiting[v] {
        s.waiting[v] = false;
        s.woken = true;
    }
    #[cfg(not(feature = "model"))]
    if let Some(w) = s.wakers[v].take() {
        w.wake();
    }
}

/// Harness side of one `Pending`: idle-point oracles, then the symbolic choice
/// of which in-flight functions complete before the next poll.
///
/// `no_waiting`: the C06 oracle applies (no limit, no failure, no interrupt).
pub fn on_pending(no_waiting: bool) {
    let s = st();
    let idle = !is_woken();
    if idle {
        vassert!(s.in_flight_count() > 0, "C04: call pending with no wake-up scheduled and no user future in flight");
        if no_waiting {
            let mut v = 0;
            while v < N {
                if v < s.n && s.start[v] == 0 {
                    let mut blocked = false;
                    let mut u = 0;
                    while u < N {
                        if u < s.n && s.pred(u, v) && s.end[u] == 0 {
                            blocked = true;
                        }
                        u += 1;
                    }
                    vassert!(blocked, "C06: idle while a function whose predecessors all returned has not been started");
                }
                v += 1;
            }
        }
    }
    vcover!(s.in_flight_count() >= 2, "two functions in flight at a pending point");
    let mut any = false;
    let mut v = 0;
    while v < N {
        if v < s.n && s.in_flight(v) && !s.released[v] && nd::boolean() {
            release(v);
            any = true;
        }
        v += 1;
    }
    // An idle call only moves when a user future completes.
    nd::assume(any || !idle);
}

/// Declares the run finished: every function that was started has returned.
pub fn on_ready() {
    let s = st();
    let mut v = 0;
    while v < N {
        if v < s.n {
            vassert!(!s.in_flight(v), "C04: call returned while a user future it started had not completed");
        }
        v += 1;
    }
}
