//! Environment stubs for `std` containers that CBMC cannot digest.
//!
//! `std::collections::VecDeque`: every `push_back` encodes the grow / realloc /
//! wrap-copy path, which multiplies heap objects and makes the rank calculation
//! (`RankCalc::calc`) intractable even for 3 nodes. Under Kani, `push_back` and
//! `pop_front` are replaced by a FIFO with the same contract: items already in
//! the real deque (the ones `collect()` put there) come out first, in order;
//! pushed items go to a fixed ring and come out after them, in order.
//! `tests/stub_conformance.rs` checks the two functions against a real
//! `VecDeque` natively.

use std::collections::VecDeque;

pub const RING: usize = 32;
static mut Q: [usize; RING] = [0; RING];
static mut HEAD: usize = 0;
static mut LEN: usize = 0;
static mut TAKEN: usize = 0;

pub fn vd_reset() {
    unsafe {
        HEAD = 0;
        LEN = 0;
        TAKEN = 0;
    }
}

#[cfg(kani)]
pub fn vd_push_back<T, A: std::alloc::Allocator>(_this: &mut VecDeque<T, A>, v: T) {
    push_impl(v)
}
#[cfg(kani)]
pub fn vd_pop_front<T, A: std::alloc::Allocator>(this: &mut VecDeque<T, A>) -> Option<T> {
    unsafe {
        if TAKEN < this.len() {
            let r = this.get(TAKEN).map(|p| core::ptr::read(p));
            TAKEN += 1;
            return r;
        }
    }
    pop_ring()
}

/// Native twins (no allocator parameter) used by the conformance test.
pub fn vd_push_back_native<T>(_this: &mut VecDeque<T>, v: T) {
    push_impl(v)
}
pub fn vd_pop_front_native<T>(this: &mut VecDeque<T>) -> Option<T> {
    unsafe {
        if TAKEN < this.len() {
            let r = this.get(TAKEN).map(|p| core::ptr::read(p));
            TAKEN += 1;
            return r;
        }
    }
    pop_ring()
}

fn push_impl<T>(v: T) {
    assert!(core::mem::size_of::<T>() == core::mem::size_of::<usize>(), "VecDeque stub: item must be word sized");
    assert!(!core::mem::needs_drop::<T>(), "VecDeque stub: item must not need drop");
    // SAFETY: same size, no drop glue; the value is moved into the ring.
    let x: usize = unsafe { core::mem::transmute_copy(&v) };
    core::mem::forget(v);
    unsafe {
        assert!(LEN < RING, "model bound exceeded: VecDeque stub ring");
        let i = (HEAD + LEN) % RING;
        Q[i] = x;
        LEN += 1;
    }
}

fn pop_ring<T>() -> Option<T> {
    unsafe {
        if LEN == 0 {
            return None;
        }
        let x = Q[HEAD];
        HEAD = (HEAD + 1) % RING;
        LEN -= 1;
        // SAFETY: the word was produced from a `T` by `push_impl`.
        Some(core::mem::transmute_copy(&x))
    }
}
