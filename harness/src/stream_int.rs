//! Ri-stream (C08, stream clause): `stream_with_interruptible` driven by the
//! symbolic consumer of `stream.rs`, with the real `interruptible` crate.
#![cfg(feature = "interruptible")]

use core::pin::pin;
use core::task::{Context, Poll};

use fn_graph::{FnRef, StreamOpts};
use futures::stream::Stream;

use crate::exec::{self, st, N};
use crate::graphs::Fx;
use crate::nd;
use crate::stream::idle_oracle;
use crate::{vassert, vcover};

/// Ri-stream (C08, stream clause): `stream_with_interruptible` over a concrete
/// shape; strategy, the step at which the interrupt signal is sent (possibly
/// before the first poll) and the consumer are symbolic. Counts the functions
/// yielded by polls that happened after the signal was sent.

pub fn h_stream_int(n: usize, shape: &[(u8, u8, u8)], rev: bool) {
    use interruptible::{InterruptSignal, InterruptibilityState, PollOutcome};
    exec::reset();
    let g = crate::graphs::shape_run_graph(n, shape);
    st().rev = rev;
    let (int_tx, int_rx) = tokio::sync::mpsc::channel::<InterruptSignal>(2);
    // 0 NonInterruptible, 1 IgnoreInterruptions, 2 FinishCurrent, 3.. PollNextN(0..=2)
    let strat = nd::below(6);
    let state = match strat {
        0 => InterruptibilityState::new_non_interruptible(),
        1 => InterruptibilityState::new_ignore_interruptions(int_rx.into()),
        2 => InterruptibilityState::new_finish_current(int_rx.into()),
        m => InterruptibilityState::new_poll_next_n(int_rx.into(), (m - 3) as u64),
    };
    let interruptible = strat >= 2;
    let pn: usize = if strat >= 3 { (strat - 3) as usize } else { 0 };
    let opts = if rev { StreamOpts::new().rev() } else { StreamOpts::new() };
    let opts = opts.interruptibility_state(state);
    let waker = exec::flag_waker();
    let mut cx = Context::from_waker(&waker);
    let mut held: [Option<FnRef<'_, Fx>>; N] = [const { None }; N];
    let mut ended = false;
    let mut sent = false;
    let mut sent_before_first_poll = false;
    let mut n_after = 0usize;
    let mut interrupted_seen = false;
    let mut polls = 0usize;
    let drops: usize = if N > 2 { 2 } else { N };
    {
        let stream = g.stream_with_interruptible(opts);
        let mut stream = pin!(stream);
        macro_rules! istep {
            () => {{
                let mut d = 0;
                while d < drops {
                    if nd::boolean() {
                        let v = nd::below(N as u8) as usize;
                        nd::assume(v < st().n && held[v].is_some());
                        let r = held[v].take();
                        drop(r);
                        exec::on_end(v);
                    }
                    d += 1;
                }
                if !sent && nd::boolean() {
                    let _ = int_tx.try_send(InterruptSignal);
                    sent = true;
                    sent_before_first_poll = polls == 0;
                }
                let all_yielded = st().started_count() == st().n;
                exec::clear_woken();
                polls += 1;
                match stream.as_mut().poll_next(&mut cx) {
                    Poll::Ready(Some(o)) => {
                        vassert!(!ended, "C05: stream yielded a function after it had ended");
                        vassert!(!interrupted_seen, "C08: interruptible stream yielded an item after the Interrupted item");
                        let (r, intr) = match o {
                            PollOutcome::NoInterrupt(r) => (Some(r), false),
                            PollOutcome::Interrupted(r) => (r, true),
                        };
                        if intr {
                            interrupted_seen = true;
                            vassert!(interruptible && sent, "C08: Interrupted reported although no interruption applies");
                        }
                        if let Some(fn_ref) = r {
                            let v = fn_ref.id as usize;
                            exec::on_start(v);
                            held[v] = Some(fn_ref);
                            if sent {
                                n_after += 1;
                            }
                        }
                    }
                    Poll::Ready(None) => {
                        vassert!(all_yielded || interrupted_seen, "C05: stream ended before every function was yielded although it was not interrupted");
                        ended = true;
                    }
                    Poll::Pending => {
                        vassert!(!ended, "C05: stream pending after it had ended");
                        if !exec::is_woken() && !(interruptible && sent) {
                            idle_oracle();
                        }
                    }
                }
            }};
        }
        istep!();
        istep!();
        istep!();
        istep!();
        if N > 2 {
            istep!();
            istep!();
        }
        vcover!(ended, "reach: interruptible stream ended");
        vcover!(interrupted_seen, "an Interrupted item was yielded");
    }
    if interruptible && sent {
        let bound = if strat == 2 || pn == 0 {
            if sent_before_first_poll { 0 } else { 1 }
        } else {
            pn
        };
        vassert!(n_after <= bound, "C08: more functions yielded after the interrupt signal than the strategy allows");
    } else if ended {
        vassert!(st().started_count() == n && !interrupted_seen, "C08: a signal changed which functions run although interruptions are disabled or none was sent");
    }
    let mut v = 0;
    while v < N {
        let r = held[v].take();
        drop(r);
        v += 1;
    }
}
