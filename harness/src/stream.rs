//! R-stream: `stream()` / `stream_with()` driven by a symbolic consumer.
//!
//! The consumer is the harness: it polls the stream, keeps the `FnRef`s it was
//! given in a local array, and between two polls drops any of them, in any
//! order. Start(v) = `FnRef` of v yielded; End(v) = that `FnRef` dropped.

use core::pin::pin;
use core::task::{Context, Poll};

use fn_graph::{FnRef, StreamOpts};
use futures::stream::Stream;

use crate::exec::{self, st, N};
use crate::graphs::{sym_run_graph, Fx};
use crate::nd;
use crate::{vassert, vcover, vlog};

/// The C05 idle oracle: the stream is pending with no wake-up signalled, so
/// every function not yet yielded must still be blocked by a predecessor whose
/// `FnRef` has not been dropped (or not been yielded).
pub fn idle_oracle() {
    let s = st();
    let mut v = 0;
    while v < N {
        if v < s.n && s.start[v] == 0 {
            let mut blocked = false;
            let mut u = 0;
            while u < N {
                if u < s.n && s.pred(u, v) && s.end[u] == 0 {
                    blocked = true;
                }
                u += 1;
            }
            vassert!(blocked, "C05: stream pending without wake-up although every predecessor FnRef of an unyielded function was dropped");
        }
        v += 1;
    }
}

/// One consumer step: drop a symbolic selection of held refs, then poll.
/// Returns true when the stream has ended.
macro_rules! stream_step {
    ($stream:ident, $cx:ident, $held:ident, $ended:ident, $drops:ident) => {{
        // Up to `drops` drops, each of a symbolically chosen held ref.
        let mut d = 0;
        while d < $drops {
            if nd::boolean() {
                let v = nd::below(N as u8) as usize;
                nd::assume(v < st().n && $held[v].is_some());
                let r = $held[v].take();
                drop(r);
                exec::on_end(v);
            }
            d += 1;
        }
        let all_yielded = st().started_count() == st().n;
        exec::clear_woken();
        st().polls += 1;
        match $stream.as_mut().poll_next(&mut $cx) {
            Poll::Ready(Some(fn_ref)) => {
                vassert!(!$ended, "C05: stream yielded a function after it had ended");
                let v = fn_ref.id as usize;
                exec::on_start(v);
                $held[v] = Some(fn_ref);
            }
            Poll::Ready(None) => {
                vlog!("poll -> None");
                vassert!(all_yielded, "C05: stream ended before every function was yielded");
                $ended = true;
            }
            Poll::Pending => {
                vlog!("poll -> Pending (woken: {})", exec::is_woken());
                vassert!(!$ended, "C05: stream pending after it had ended");
                vassert!(!all_yielded, "C05: stream did not end although every function was yielded");
                if !exec::is_woken() {
                    idle_oracle();
                }
            }
        }
    }};
}

macro_rules! stream_steps {
    ($stream:ident, $cx:ident, $held:ident, $ended:ident, $p:ident, [$($k:tt)*]) => {
        $( let _ = stringify!($k); stream_step!($stream, $cx, $held, $ended, $p); )*
    };
}

/// R-stream over a symbolic graph, order and consumer program.
/// `shape`: a concrete graph shape, or None for a symbolic graph;
/// `rev`: the stream order, or None for a symbolic order.
pub fn h_stream_on(n: usize, shape: Option<&[(u8, u8, u8)]>, rev: Option<bool>) {
    h_stream_bounded(n, shape, rev, false)
}

/// `short`: the quick bound - 2n-1 polls, at most 2 drops between two polls -
/// instead of 2n+1 polls and up to n drops.
pub fn h_stream_bounded(n: usize, shape: Option<&[(u8, u8, u8)]>, rev: Option<bool>, short: bool) {
    exec::reset();
    let g = match shape {
        Some(sh) => crate::graphs::shape_run_graph(n, sh),
        None => sym_run_graph(n),
    };
    let rev = match rev {
        Some(r) => r,
        None => nd::boolean(),
    };
    st().rev = rev;
    let opts = if rev { StreamOpts::new().rev() } else { StreamOpts::new() };
    let waker = exec::flag_waker();
    let mut cx = Context::from_waker(&waker);
    let mut held: [Option<FnRef<'_, Fx>>; N] = [const { None }; N];
    let mut ended = false;
    let drops: usize = if short && N > 2 { 2 } else { N };
    {
        let stream = g.stream_with(opts);
        let mut stream = pin!(stream);
        if short {
            #[cfg(feature = "n2")]
            stream_steps!(stream, cx, held, ended, drops, [1 2 3]);
            #[cfg(all(feature = "n4", not(feature = "n2")))]
            stream_steps!(stream, cx, held, ended, drops, [1 2 3 4 5 6 7]);
            #[cfg(not(any(feature = "n2", feature = "n4")))]
            stream_steps!(stream, cx, held, ended, drops, [1 2 3 4 5]);
        } else {
            #[cfg(feature = "n2")]
            stream_steps!(stream, cx, held, ended, drops, [1 2 3 4 5]);
            #[cfg(all(feature = "n4", not(feature = "n2")))]
            stream_steps!(stream, cx, held, ended, drops, [1 2 3 4 5 6 7 8 9]);
            #[cfg(not(any(feature = "n2", feature = "n4")))]
            stream_steps!(stream, cx, held, ended, drops, [1 2 3 4 5 6 7]);
        }
        vcover!(ended, "reach: stream ended with None");
        vcover!(ended && st().polls as usize > st().n + 1, "stream ended after at least one pending poll");
        // The stream is dropped here, possibly before the refs still held.
    }
    // Dropping the remaining refs after the stream is gone must not panic.
    let mut v = 0;
    while v < N {
        let r = held[v].take();
        drop(r);
        v += 1;
    }
}

/// R-stream-rerun (C15): a first stream on the graph is polled a symbolic number
/// of times with symbolic drops and then abandoned (stream and refs dropped in
/// either order); a second stream on the same graph value must then satisfy
/// every oracle of a run on a fresh graph.
pub fn h_stream_rerun(n: usize, shape: Option<&[(u8, u8, u8)]>, rev: bool) {
    exec::reset();
    let g = match shape {
        Some(sh) => crate::graphs::shape_run_graph(n, sh),
        None => sym_run_graph(n),
    };
    st().rev = rev;
    let waker = exec::flag_waker();
    let mut cx = Context::from_waker(&waker);
    let (_, _, counts_before) = fn_graph::verif_hooks::fn_graph_parts(&g);
    let mut inc_before = [0usize; N];
    let mut out_before = [0usize; N];
    let mut v = 0;
    while v < N {
        if v < n {
            inc_before[v] = counts_before.incoming()[v];
            out_before[v] = counts_before.outgoing()[v];
        }
        v += 1;
    }
    // FnRefs of the first run: some are dropped before its stream, some right
    // after it, and the rest only while the second run is in progress.
    let mut held1: [Option<FnRef<'_, Fx>>; N] = [const { None }; N];
    {
        let held = &mut held1;
        let mut ended = false;
        let drops: usize = if N > 2 { 2 } else { N };
        let refs_first = nd::boolean();
        {
            let opts = if rev { StreamOpts::new().rev() } else { StreamOpts::new() };
            let stream = g.stream_with(opts);
            let mut stream = pin!(stream);
            // 0..=2 polls of the first run
            if nd::boolean() {
                stream_step!(stream, cx, held, ended, drops);
                if nd::boolean() {
                    stream_step!(stream, cx, held, ended, drops);
                }
            }
            if refs_first {
                let mut v = 0;
                while v < N {
                    let r = held[v].take();
                    drop(r);
                    v += 1;
                }
            }
        }
        let mut v = 0;
        while v < N {
            if nd::boolean() {
                let r = held[v].take();
                drop(r);
            }
            v += 1;
        }
        let _ = ended;
    }
    let lingering = held1.iter().any(|r| r.is_some());
    let (_, _, counts_after) = fn_graph::verif_hooks::fn_graph_parts(&g);
    let mut v = 0;
    while v < N {
        if v < n {
            vassert!(counts_after.incoming()[v] == inc_before[v] && counts_after.outgoing()[v] == out_before[v], "C15: an abandoned run changed the predecessor counts stored in the graph");
        }
        v += 1;
    }
    // second run, from a clean trace
    exec::reset_trace();
    exec::clear_woken();
    let mut held: [Option<FnRef<'_, Fx>>; N] = [const { None }; N];
    let mut ended = false;
    let drops: usize = N;
    {
        let opts = if rev { StreamOpts::new().rev() } else { StreamOpts::new() };
        let stream = g.stream_with(opts);
        let mut stream = pin!(stream);
        macro_rules! rerun_step {
            () => {{
                // a FnRef left over from the abandoned run may be dropped at any time
                let mut v = 0;
                while v < N {
                    if held1[v].is_some() && nd::boolean() {
                        let r = held1[v].take();
                        drop(r);
                    }
                    v += 1;
                }
                stream_step!(stream, cx, held, ended, drops);
            }};
        }
        rerun_step!();
        rerun_step!();
        rerun_step!();
        rerun_step!();
        rerun_step!();
        if N > 2 {
            rerun_step!();
            rerun_step!();
        }
        vcover!(ended, "reach: second stream ended with None");
        vcover!(ended && lingering, "a FnRef of the abandoned run outlived it");
        vassert!(!ended || st().started_count() == n, "C15: a run after an abandoned run ended without every function handed out");
    }
    let mut v = 0;
    while v < N {
        let r = held[v].take();
        drop(r);
        v += 1;
    }
}

/// R-stream-pair (C20): two streams on the same `&FnGraph`, polled in a symbolic
/// interleaving, each with its own consumer and its own trace; each must
/// satisfy the single-run oracles.
pub fn h_stream_pair(n: usize, shape: Option<&[(u8, u8, u8)]>, rev_a: bool, rev_b: bool) {
    exec::reset();
    let g = match shape {
        Some(sh) => crate::graphs::shape_run_graph(n, sh),
        None => sym_run_graph(n),
    };
    exec::copy_graph_to_second();
    exec::select(false);
    st().rev = rev_a;
    exec::select(true);
    st().rev = rev_b;
    exec::select(false);
    let waker = exec::flag_waker();
    let mut cx = Context::from_waker(&waker);
    let mut held_a: [Option<FnRef<'_, Fx>>; N] = [const { None }; N];
    let mut held_b: [Option<FnRef<'_, Fx>>; N] = [const { None }; N];
    let mut ended_a = false;
    let mut ended_b = false;
    let drops: usize = 1;
    {
        let oa = if rev_a { StreamOpts::new().rev() } else { StreamOpts::new() };
        let ob = if rev_b { StreamOpts::new().rev() } else { StreamOpts::new() };
        let sa = g.stream_with(oa);
        let mut sa = pin!(sa);
        let sb = g.stream_with(ob);
        let mut sb = pin!(sb);
        macro_rules! pair_step {
            () => {{
                // which run moves now
                if nd::boolean() {
                    exec::select(false);
                    stream_step!(sa, cx, held_a, ended_a, drops);
                } else {
                    exec::select(true);
                    stream_step!(sb, cx, held_b, ended_b, drops);
                }
            }};
        }
        pair_step!();
        pair_step!();
        pair_step!();
        pair_step!();
        pair_step!();
        pair_step!();
        vcover!(ended_a && ended_b, "reach: both streams ended");
        exec::select(false);
        vassert!(!ended_a || st().started_count() == n, "C20: a stream interleaved with another run ended without every function handed out");
        exec::select(true);
        vassert!(!ended_b || st().started_count() == n, "C20: a stream interleaved with another run ended without every function handed out");
    }
    let mut v = 0;
    while v < N {
        let r = held_a[v].take();
        drop(r);
        let r = held_b[v].take();
        drop(r);
        v += 1;
    }
}
