#!/usr/bin/env python3
"""Generates /verif/harness/src/harnesses.rs: one `pub fn` per harness, the
name -> fn registry used by the native replay binary, and the #[kani::proof]
wrappers. Run after changing the inventory; the output is committed."""
STUBS = '''#[kani::stub(std::collections::VecDeque::push_back, crate::stubs::vd_push_back)]
        #[kani::stub(std::collections::VecDeque::pop_front, crate::stubs::vd_pop_front)]'''
STUBS_C18 = '''#[kani::stub(std::collections::VecDeque::push_back, crate::stubs_c18::vd_push_back)]
        #[kani::stub(std::collections::VecDeque::pop_front, crate::stubs_c18::vd_pop_front)]'''
H = []  # (cfg, name, unwind, stubs, body)

def cfgattr(cfg):
    fs = cfg.split(',')
    if len(fs) == 1:
        return '#[cfg(feature = "%s")]' % cfg
    return '#[cfg(all(%s))]' % ', '.join('feature = "%s"' % f for f in fs)


def add(cfg, name, unwind, body, stubs=False):
    H.append((cfg, name, unwind, stubs, body))

# ---- build side -----------------------------------------------------------
for n, uw in ((2, 6), (3, 6), (4, 10), (5, 18)):
    add('n%d' % n, 'rank_n%d' % n, uw, 'crate::build::h_rank(N)', True)
add('n4', 'rank_fwd_n4', 10, 'crate::build::h_rank_slots(N, true)', True)
# C18: unwind n*n+2, so that every run in which no function is popped more than n times completes
add('n3', 'rankv_n3', 11, 'crate::build::h_rank(N)', True)
add('n2', 'rankv_n2', 6, 'crate::build::h_rank(N)', True)
add('n3', 'rankv_fwd_n3', 11, 'crate::build::h_rank_slots(N, true)', True)
# C18 with the oracle inside the queue stub (asserted at the violating pop): a smaller unwind bound suffices
add('n3', 'rankc_fwd_n3', 8, 'crate::build::h_rank_slots(N, true)', 'c18')
add('n3', 'rankc_n3', 8, 'crate::build::h_rank(N)', 'c18')
# the smallest size at which walking every path exceeds n pops: found F2; needs ~35 GB and ~45 min (thorough tier, runs alone)
add('n5', 'rankc_fwd_n5', 16, 'crate::build::h_rank_slots(N, true)', 'c18')
add('n5', 'rank_fwd_n5', 18, 'crate::build::h_rank_slots(N, true)', True)
for n in (2, 3):
    add('n%d' % n, 'builder_n%d' % n, 8, 'crate::build::h_builder(N)', True)
    add('n%d' % n, 'builder_batch_n%d' % n, 8, 'crate::build::h_builder_batch(N)', True)
add('n2', 'augment_n2', 6, 'crate::build::h_augment(N)', False)
for i in range(25):
    add('n3', 'augment3_s%02d' % i, 6, 'crate::build::h_augment_on(N, Some(crate::shapes::SHAPES3[%d]))' % i, False)
add('n2', 'probe_user_graph', 5, 'crate::build::probe_user_graph(N)', False)
add('n2', 'probe_augment_only', 5, 'crate::build::probe_augment_only(N)', False)
add('n2', 'probe_conflict_pred', 5, 'crate::build::probe_conflict_pred()', False)
add('n2', 'probe_typeid_eq', 5, 'crate::build::probe_typeid_eq()', False)
# ---- stream ---------------------------------------------------------------
add('n2', 'stream_sym_n2', 3, 'crate::stream::h_stream_on(N, None, None)')
for i in range(3):
    for d in 'fr':
        add('n2', 'stream2_s%02d_%s' % (i, d), 3,
            'crate::stream::h_stream_on(N, Some(crate::shapes::SHAPES2[%d]), Some(%s))' % (i, 'true' if d == 'r' else 'false'))
for i in range(25):
    for d in 'fr':
        add('n3', 'stream3_s%02d_%s' % (i, d), 4,
            'crate::stream::h_stream_on(N, Some(crate::shapes::SHAPES3[%d]), Some(%s))' % (i, 'true' if d == 'r' else 'false'))

for i in range(25):
    for d in 'fr':
        add('n3', 'streamq3_s%02d_%s' % (i, d), 4,
            'crate::stream::h_stream_bounded(N, Some(crate::shapes::SHAPES3[%d]), Some(%s), true)' % (i, 'true' if d == 'r' else 'false'))

for i in range(6):
    for d in 'fr':
        add('n4', 'streamq4_s%02d_%s' % (i, d), 5,
            'crate::stream::h_stream_bounded(N, Some(crate::shapes::SHAPES4[%d]), Some(%s), true)' % (i, 'true' if d == 'r' else 'false'))
for i in range(3):
    add('n2', 'rerun2_s%02d_f' % i, 3, 'crate::stream::h_stream_rerun(N, Some(crate::shapes::SHAPES2[%d]), false)' % i)
    add('n2', 'pair2_s%02d_ff' % i, 3, 'crate::stream::h_stream_pair(N, Some(crate::shapes::SHAPES2[%d]), false, false)' % i)
add('n2', 'rerun2_s01_r', 3, 'crate::stream::h_stream_rerun(N, Some(crate::shapes::SHAPES2[1]), true)')
add('n2', 'pair2_s01_fr', 3, 'crate::stream::h_stream_pair(N, Some(crate::shapes::SHAPES2[1]), false, true)')
add('n3', 'rerun3_s04_f', 4, 'crate::stream::h_stream_rerun(N, Some(crate::shapes::SHAPES3[4]), false)')
# ---- sequential iteration, outcome, whole build, interruptible ready stream ----
add('n3', 'iter_sym_n3', 5, 'crate::iter::h_iter(N, None)')
add('n2', 'iter_sym_n2', 4, 'crate::iter::h_iter(N, None)')
for i in (4, 12, 13, 24):
    add('n3', 'outcome3_s%02d' % i, 5, 'crate::outcome::h_outcome_new(N, crate::shapes::SHAPES3[%d])' % i)
add('n2', 'build_n2', 6, 'crate::build::h_build(N, true)', True)
add('n2', 'build_noacc_n2', 6, 'crate::build::h_build(N, false)', True)
add('n3', 'build_noacc_n3', 6, 'crate::build::h_build(N, false)', True)
add('n2', 'eq_n2', 4, 'crate::build::h_eq(N)')
add('n3', 'eq_n3', 5, 'crate::build::h_eq(N)')
# sint* (stream_with_interruptible through the real interruptible crate): 782 k steps at n = 2 with 4 polls, solver out of memory: not registered
add('n3,graph_info', 'ginfo_n3', 6, 'crate::ginfo::h_graph_info(N)')
add('n2,graph_info', 'ginfo_n2', 4, 'crate::ginfo::h_graph_info(N)')
# track_* (poll_and_track_fn_ready with the interruptible feature) exhausts the solver memory (103 M clauses at n = 2): not registered

out = ['//! GENERATED by /verif/bin/gen_harnesses.py - do not edit by hand.',
       '//!',
       '//! Every harness is a plain `pub fn` (so that the native replay binary can run it',
       '//! against the real dependencies), registered by name, and wrapped in a',
       '//! `#[kani::proof]` with its unwind bound and stubs.',
       '', '#[allow(unused_imports)]', 'use crate::exec::N;', '']
for cfg, name, uw, stubs, body in H:
    out += [cfgattr(cfg), 'pub fn %s() {' % name, '    %s;' % body, '}', '']
out += ['/// Runs the harness called `name`; false if there is none in this build.', 'pub fn run(name: &str) -> bool {', '    match name {']
for cfg, name, uw, stubs, body in H:
    out += ['        ' + cfgattr(cfg), '        "%s" => %s(),' % (name, name)]
out += ['        _ => return false,', '    }', '    true', '}', '', '#[cfg(kani)]', 'mod proofs {']
for cfg, name, uw, stubs, body in H:
    out += ['    ' + cfgattr(cfg), '    #[kani::proof]', '    #[kani::unwind(%d)]' % uw]
    if stubs == 'c18':
        out += ['    ' + STUBS_C18.replace('\n        ', '\n    ')]
    elif stubs:
        out += ['    ' + STUBS.replace('\n        ', '\n    ')]
    out += ['    fn %s() {' % name, '        super::%s()' % name, '    }', '']
out += ['}', '']
open('/verif/harness/src/harnesses.rs', 'w').write('\n'.join(out))
import json
# lib.rs only declares modules
COMMON = ['exec.rs', 'graphs.rs', 'nd.rs', 'shapes.rs']


def deps(body, stubs=False):
    mod = body.split('::')[1]
    d = COMMON + [mod + '.rs']
    if mod == 'stream_int':
        d.append('stream.rs')
    if mod == 'build':
        d.append('stubs_c18.rs' if stubs == 'c18' else 'stubs.rs')
    return sorted(set(d))


def models(body):
    # which dependency models the code reached by the harness executes
    return ['daggy', 'smallvec'] if body.split('::')[1] == 'build' else ['daggy', 'tokio']


json.dump([dict({'name': n, 'features': c, 'unwind': u, 'stubs': s, 'body': b, 'deps': deps(b, s), 'models': models(b)}, **({'mem_kb': 58000000, 'cap_s': 4500} if n.endswith('_n5') else {})) for c, n, u, s, b in H], open('/verif/harness/harnesses.json', 'w'), indent=0)
print(len(H), 'harnesses')
