"""Inventory: which harnesses decide which property, with the stated bounds.

PROPERTIES[id] = {quick, thorough: harness names; functions; bounds; outside; assumptions;
                  claim: text for MANIFEST level_claimed; note: trusted base / what is not decided}
"""
import json, os

_V = os.path.dirname(os.path.dirname(os.path.abspath(__file__)))
HARNESS_INFO = {h['name']: h for h in json.load(open(os.path.join(_V, 'harness', 'harnesses.json')))}

M_DAGGY = 'daggy/petgraph replaced by /verif/models/daggy (array model: insertion-order indices, most-recent-first adjacency walks, petgraph Topo algorithm, add_edge rejects iff a path back exists); conformance-tested against the real crate (models/conformance)'
M_TOKIO = 'tokio::sync::mpsc replaced by /verif/models/tokio (FIFO of <= 4 items, sender count, closed flag; ONE polling task: registering a waker is a flag, waking sets a global flag the harness executor reads); conformance-tested against the real crate'
M_SMALLVEC = 'smallvec::SmallVec replaced by /verif/models/smallvec (<= 2 items in Option slots, insertion order)'
M_TASK = 'one polling task; FnRef drops "from other threads" are drops between two polls (all a single receiver can observe)'
M_FLAGS = 'Kani flags --no-memory-safety-checks --no-overflow-checks --no-assertion-reach-checks: memory safety and CBMC-level arithmetic checks are not part of the claim (Rust debug overflow / bounds / unwrap panics are MIR assertions and stay checked); unwinding assertions are on'
M_REPLAY = 'a failed assertion is reported as VIOLATION only after its solver counterexample reproduced natively (dev and release) against the REAL daggy/tokio/futures (harness-real)'
M_REPINV = 'run-side harnesses start from a FnGraph assembled by the verif_hooks from-parts hook that satisfies the representation invariant (scheduling structures = edges of graph, reversed copy, degrees over all edge kinds, acyclic, every conflicting pair joined by a path); that invariant is what the build-side harnesses (augment*, counts*) establish'
STUB_VD = 'std::collections::VecDeque::{push_back, pop_front} stubbed (kani::stub) by a FIFO ring with the same contract (harness/src/stubs.rs)'
NOT_ASYNC = 'NOT decided: the eight deep async bodies (fold_async*, try_fold_async*, for_each_concurrent*, try_for_each_concurrent* and wrappers). Kani lowers every async state machine to a union and CBMC rewrites the whole root future on each write; for_each_concurrent on the EMPTY graph did not leave symbolic execution in 30 min (DESIGN.md section 2).'

STREAM_FUNCS = ['FnGraph::stream_with', 'FnGraph::stream_internal (the poll_fn closure)', 'stream_setup_init', 'fns_no_predecessors', 'fns_no_predecessors_preload', 'FnRef::drop', 'FnRef::deref', 'EdgeCounts::{incoming,outgoing}']
AUG_FUNCS = ['DataEdgeAugmenter::augment (via verif_hooks::augment)', 'DataAccessDyn::{borrows,borrow_muts} as called by it']

S2F = ['stream2_s%02d_f' % i for i in range(3)]
S2 = ['stream2_s%02d_%s' % (i, d) for i in range(3) for d in 'fr']
S3 = ['stream3_s%02d_%s' % (i, d) for i in range(25) for d in 'fr']
SQ3 = ['streamq3_s04_f', 'streamq3_s12_r']          # join forward, fork reversed (= join in walk order)
SQ3_ALL = ['streamq3_s%02d_f' % i for i in range(25)] + ['streamq3_s%02d_r' % i for i in (4, 12, 10, 13, 1, 8, 16, 21)]
# full consumer bound (2n+1 polls, n drops) on the shapes with a join, a fork, a chain and the triangle
S3_FULL = ['stream3_s%02d_%s' % (i, d) for i in (4, 12, 10, 13) for d in 'fr']
STREAM_QUICK = S2F + SQ3
SQ4 = ['streamq4_s%02d_%s' % (i, d) for i in range(6) for d in 'fr']
STREAM_THOROUGH = S2 + SQ3_ALL + S3_FULL + ['stream_sym_n2'] + SQ4
BUILD_QUICK = ['build_n2']
AUG_QUICK = ['augment_n2', 'augment3_s04', 'augment3_s01']
AUG_MID = ['augment_n2', 'augment3_s04', 'augment3_s01', 'augment3_s00', 'augment3_s09', 'augment3_s11']
AUG_ALL = ['augment_n2'] + ['augment3_s%02d' % i for i in range(25)]

STREAM_BOUNDS = {
    'graphs': 'quick: all 3 labelled DAGs on 2 functions (forward) + the join (0->2,1->2 forward) and the fork (0->1,0->2 walked in reverse) on 3 functions; thorough: all 25 labelled DAGs on 3 functions forward (8 of them also in reverse; quick consumer bound; join, fork, chain and triangle also with the full bound, both orders), all 3 on 2 functions forward and reverse, a fully symbolic 2-function graph (symbolic edges, kinds and order), and 6 shapes on 4 functions (join with tail, chain into fork, two parallel chains, diamond, N, join whose tail was inserted first), forward and reverse, with the quick consumer bound',
    'conflicts': 'symbolic: any symmetric relation in which every conflicting pair is joined by a path',
    'consumer': 'symbolic: 2n+1 poll_next calls (quick n=3: 2n-1), before each poll up to n (quick n=3: 2) drops of symbolically chosen held FnRefs, i.e. any number in any order between two polls; stream dropped with refs still held, refs dropped afterwards',
    'unwind': 'n+1 (all loops, unwinding assertions on)',
}
STREAM_OUT = ['more than 4 functions; 4-function graphs other than the 6 listed shapes; graphs on 3 functions are enumerated concretely (all 25), not symbolic: a fully symbolic 3-function graph needs > 40 GB', 'more polls than stated', 'real tokio internals (threads, memory ordering, cooperative budget)', 'stream_interruptible / stream_with_interruptible (harness not built yet)']

PROPERTIES = {
    'C01': {
        'quick': AUG_QUICK + STREAM_QUICK,
        'thorough': AUG_ALL + STREAM_THOROUGH,
        'functions': AUG_FUNCS + STREAM_FUNCS,
        'bounds': dict(STREAM_BOUNDS, build='augment: symbolic 2-function user graph (every ordered pair absent/Logic/Contains) and all 25 user graphs on 3 functions (quick: the join), access declarations symbolic: 2 data types x {none, read, write} per function'),
        'outside': STREAM_OUT + [NOT_ASYNC, 'predecessor counts / structure copies of build() (RepInv) are decided under C02 for 2 functions only'],
        'assumptions': [M_DAGGY, M_TOKIO, M_SMALLVEC, M_TASK, M_REPINV, M_FLAGS, M_REPLAY],
        'claim': 'Composition, each link a solver-decided assertion: (a) build side - after DataEdgeAugmenter::augment every pair of functions with conflicting access (predicate written from the property text) is joined by a directed path; (b) run side, stream()/stream_with() - over any graph in which conflicting pairs are joined by a path, no function is yielded while a conflicting one is held, for every consumer schedule in the bound. Covers the stream family only.',
        'note': 'for_each_concurrent*/try_for_each_concurrent* are out of reach of the solver here (deep async); a change that sends done early in those bodies is not detected.',
    },
    'C02': {
        'quick': BUILD_QUICK + STREAM_QUICK,
        'thorough': BUILD_QUICK + STREAM_THOROUGH,
        'functions': STREAM_FUNCS + ['FnGraphBuilder::build (structure copies)', 'PredecessorCountCalc::calc'],
        'bounds': STREAM_BOUNDS,
        'outside': STREAM_OUT + [NOT_ASYNC],
        'assumptions': [M_DAGGY, M_TOKIO, M_TASK, M_REPINV, M_FLAGS, M_REPLAY],
        'claim': '(a) build(): the scheduling structures have exactly the edges of the graph (same order and kinds; reversed copy) and the predecessor counts are the in/out degrees over all edge kinds (2 functions, symbolic call sequence); (b) stream()/stream_with(), forward and reverse: at the moment a FnRef is yielded every direct predecessor in the walked direction has been yielded and dropped (hence transitively), for every graph, order and consumer schedule in the bound.',
        'note': 'fold_async*/try_fold_async*/for_each_concurrent*/try_for_each_concurrent* not decided (deep async, see DESIGN.md).',
    },
    'C03': {
        'quick': STREAM_QUICK,
        'thorough': STREAM_THOROUGH,
        'functions': STREAM_FUNCS,
        'bounds': STREAM_BOUNDS,
        'outside': STREAM_OUT + [NOT_ASYNC, 'graphs wider than 3 roots: a ready/done channel sized by a constant >= 3 is not detectable'],
        'assumptions': [M_DAGGY, M_TOKIO, M_TASK, M_REPINV, M_FLAGS, M_REPLAY],
        'claim': 'stream()/stream_with(): no function id is yielded twice, only ids of the graph are yielded, and when the stream ends every function was yielded exactly once.',
        'note': 'fold / for_each families not decided (deep async).',
    },
    'C05': {
        'quick': STREAM_QUICK,
        'thorough': STREAM_THOROUGH,
        'attribute_panics': True,
        'functions': STREAM_FUNCS,
        'bounds': STREAM_BOUNDS,
        'outside': STREAM_OUT,
        'assumptions': [M_DAGGY, M_TOKIO, M_TASK, M_REPINV, M_FLAGS, M_REPLAY],
        'claim': 'All clauses for stream()/stream_with(): whenever poll_next returns Pending with no wake-up signalled every unyielded function still has an undropped/unyielded predecessor; None is returned exactly after all functions were yielded (and again afterwards); no panic for any order of FnRef / stream drops. The solver found the stall of the unfixed code (F1 in known_findings.json) with this check.',
        'note': 'stream_interruptible variants not covered yet; wake-ups are decided over the channel contract model, not over tokio internals.',
    },
    'C06': {
        'quick': AUG_QUICK + STREAM_QUICK,
        'thorough': AUG_ALL + STREAM_THOROUGH,
        'functions': AUG_FUNCS + STREAM_FUNCS,
        'bounds': dict(STREAM_BOUNDS, build='augment: as for C01'),
        'outside': STREAM_OUT + [NOT_ASYNC],
        'assumptions': [M_DAGGY, M_TOKIO, M_SMALLVEC, M_TASK, M_REPINV, M_FLAGS, M_REPLAY],
        'claim': '(a) build side: every edge of the augmented graph that the user did not add has kind Data and joins two functions with conflicting access (read-read sharing yields no edge); (b) stream()/stream_with(): at every idle point every function whose predecessors were all dropped has been yielded.',
        'note': 'for_each_concurrent*/try_for_each_concurrent* idle points not decided (deep async).',
    },
    'C11': {
        'quick': AUG_MID,
        'thorough': AUG_ALL,
        'attribute_panics': True,
        'functions': AUG_FUNCS,
        'bounds': {'graphs': 'symbolic 2-function user graph; user graphs on 3 functions enumerated (quick: join, no edges, 1->2, chain, 0->1 + 2->1; thorough: all 25)', 'access': 'symbolic: 2 data types x {none, read, write} per function', 'ranks': 'the longest-chain reference that the C13 harness proves equal to RankCalc::calc', 'unwind': 6},
        'outside': ['more than 3 functions, more than 2 data types', 'build() as a whole (rank -> augment -> counts -> copies in one call) is not executed in one harness: the stages are decided separately', 'structure copies and predecessor counts (no harness yet)'],
        'assumptions': [M_DAGGY, M_SMALLVEC, M_FLAGS, M_REPLAY],
        'claim': 'DataEdgeAugmenter::augment never panics (update_edge().expect is an assertion), keeps every function under its id and every user edge with its kind, adds only Data edges, leaves the graph acyclic without duplicate edges, joins every conflicting pair by a path and adds a Data edge only between conflicting functions.',
        'note': 'decided for the augmentation stage from arbitrary user graphs; the composition inside build() is by reading (4 consecutive calls).',
    },
    'C12': {
        'quick': AUG_MID,
        'thorough': AUG_ALL,
        'functions': AUG_FUNCS,
        'bounds': {'graphs': 'as C11', 'access': 'as C11', 'unwind': 6},
        'outside': ['more than 3 functions / 2 data types', 'the determinism clause (building twice yields == graphs; one change yields !=) and FnGraph::eq: no harness yet'],
        'assumptions': [M_DAGGY, M_SMALLVEC, M_FLAGS, M_REPLAY],
        'claim': 'Conflicting functions not ordered by user edges end up ordered lower rank first, then insertion order; no Data edge duplicates a user edge or is implied by a path that avoids it.',
        'note': 'the build-twice / PartialEq clause is not decided.',
    },
    'C13': {
        'quick': ['rank_n3'],
        'thorough': ['rank_n2', 'rank_n3', 'rank_n4'],
        'attribute_panics': True,
        'functions': ['RankCalc::calc', 'RankCalc::is_root_node (via verif_hooks::rank_calc)'],
        'bounds': {'graphs': 'symbolic: every ordered pair of n functions is absent / Logic / Contains (cyclic choices rejected by the graph, as the builder does); n = 3 (quick), n = 2..4 (thorough)', 'unwind': '2^(n-1)+2'},
        'outside': ['more than 4 functions', 'ranks() of build() = this stage by reading (build stores the vector unchanged)'],
        'assumptions': [M_DAGGY, STUB_VD, M_FLAGS, M_REPLAY],
        'claim': 'For every DAG in the bound RankCalc::calc returns, for every function, the length of the longest chain of user edges ending at it (reference: n rounds of relaxation over the same symbolic edges).',
        'note': 'VecDeque is stubbed; access declarations cannot influence the result because the stage never reads them.',
    },
    'C16': {
        'quick': ['builder_n3', 'builder_batch_n3'],
        'thorough': ['builder_n2', 'builder_batch_n2', 'builder_n3', 'builder_batch_n3'],
        'functions': ['FnGraphBuilder::add_fn', 'add_logic_edge', 'add_contains_edge', 'add_logic_edges', 'add_contains_edges'],
        'bounds': {'calls': '4 symbolic calls (kind, from, to) over 3 functions incl. self-edges, repeats, reversed pairs; batch forms: one edge, then a symbolic batch of two edges of a symbolic kind', 'unwind': 8},
        'outside': ['more than 3 functions / 4 calls', 'the cycle test inside daggy itself (modelled; conformance-tested against the real crate)'],
        'assumptions': [M_DAGGY, M_FLAGS, M_REPLAY],
        'claim': 'After every call: Err exactly when the reference closure of the accepted edges has a path back (self-edge included); accepted edges keep their ids and order; at most one edge per ordered pair, last kind wins; batch forms stop at the first rejected edge and keep the earlier ones.',
        'note': 'decides fn_graph\'s use of daggy (update_edge vs add_edge, argument order, kinds); daggy\'s reachability is trusted.',
    },
    'C18': {
        'quick': ['rankc_fwd_n3', 'rank_fwd_n4'],
        'thorough': ['rankv_n2', 'rankc_fwd_n3', 'rankc_n3', 'rankv_fwd_n3', 'rankv_n3', 'rank_n4', 'rank_fwd_n4', 'rankc_fwd_n5'],
        'functions': ['RankCalc::calc with the verif_hooks pop counter (rank*, rankv*) / with the per-pop oracle inside the VecDeque stub (rankc*)'],
        'bounds': {'graphs': 'symbolic: every ordered (fwd: forward) pair of n functions absent / Logic / Contains; quick n = 3 (forward) and n = 4 (forward); thorough also n = 2, n = 3 and n = 4 all ordered pairs, and n = 5 forward (10 symbolic slots)', 'unwind': 'rank*: 2^(n-1)+2; rankv*: n*n+2; rankc_fwd_n3: 8; rankc_fwd_n5: 16'},
        'outside': ['more than 5 functions', 'work of the other build stages', 'a change that needs more loop iterations than the unwind bound without exceeding n pops of one function within it is reported as inconclusive, not as held'],
        'assumptions': [M_DAGGY, STUB_VD + '; rankc*: the stub also counts pops per function id and asserts the C18 bound at each pop', M_FLAGS, M_REPLAY],
        'claim': 'For every DAG in the bound no function is popped from the rank queue more often than there are functions. The n = 5 query (thorough) is the one that refuted the original path-walking algorithm (finding F2, fixed by /repo 85995a5).',
        'note': 'quick (n <= 4) alone cannot see an exponential algorithm: at n <= 4 even walking every path stays within n pops; the thorough tier (n = 5, ~45 min, ~35 GB) can.',
    },

}

PROPERTIES['C14'] = {
    'quick': ['iter_sym_n3'],
    'thorough': ['iter_sym_n2', 'iter_sym_n3'],
    'attribute_panics': True,
    'functions': ['FnGraph::iter', 'iter_rev', 'toposort', 'map', 'fold', 'try_fold', 'for_each', 'try_for_each', 'iter_insertion', 'iter_insertion_mut', 'iter_insertion_with_indices'],
    'bounds': {'graphs': 'fully symbolic built graph on 3 (thorough also 2) functions: per pair no edge / either direction, symbolic kinds incl. Data', 'failure': 'symbolic position of the failing call for try_fold / try_for_each (or none)', 'unwind': 5},
    'outside': ['more than 3 functions', 'petgraph\'s Topo itself is the model (conformance-tested step by step against the real one); what is decided is fn_graph\'s wiring: which structure, which direction, short-circuit'],
    'assumptions': [M_DAGGY, M_REPINV, M_FLAGS, M_REPLAY],
    'claim': 'Each of the eleven sequential iteration APIs visits every function exactly once; iter/toposort/map/fold/try_fold/for_each/try_for_each after all predecessors over all edge kinds, iter_rev after all successors, iter_insertion* in insertion order; try_fold / try_for_each return the first error and invoke nothing afterwards.',
    'note': 'graph and graph_structure are assumed equal in edges (RepInv, decided under C02 for 2 functions).',
}

PROPERTIES['C12']['quick'] = AUG_MID + ['eq_n3']
PROPERTIES['C12']['thorough'] = AUG_ALL + ['eq_n2', 'eq_n3', 'build_n2']
PROPERTIES['C12']['functions'] = AUG_FUNCS + ['<FnGraph as PartialEq>::eq', 'FnGraphBuilder::build (thorough, 2 functions)']
PROPERTIES['C12']['outside'] = ['more than 3 functions / 2 data types', 'determinism of build() ("the same call sequence twice yields == graphs") is not decided by a two-build harness (three builds exhaust the solver memory); build() contains no source of nondeterminism (no hashing, no randomness) by reading']
PROPERTIES['C12']['claim'] += ' FnGraph::eq: graphs assembled from equal functions and equal edge lists compare equal; a difference in one function, one edge kind, one edge direction or one missing edge compares unequal (symbolic 3-function graphs).'
PROPERTIES['C12']['note'] = 'the "building twice" clause is reduced to equality of equal descriptions; see outside.'
PROPERTIES['C11']['thorough'] = AUG_ALL + ['build_n2']
PROPERTIES['C13']['thorough'] = ['rank_n2', 'rank_n3', 'rank_n4', 'build_n2']

PROPERTIES['C09'] = {
    'quick': ['outcome3_s04'],
    'thorough': ['outcome3_s04', 'outcome3_s12', 'outcome3_s13', 'outcome3_s24'],
    'functions': ['StreamOutcome::new', 'stream_outcome_state_after_stream (via verif_hooks::streaming)'],
    'bounds': {'graphs': '3 functions (4 shapes; the functions under test only read the node list)', 'processed': 'symbolic list of distinct ids of every length 0..3 in any order', 'unwind': 5},
    'outside': [NOT_ASYNC, 'which ids the eight streaming bodies put into the list, and the ControlFlow mapping of the control wrappers, are inside those bodies and not decided', 'poll_and_track_fn_ready with the interruptible feature: 103 M clauses at n = 2, solver out of memory'],
    'assumptions': [M_DAGGY, M_FLAGS, M_REPLAY],
    'claim': 'The two synchronous pieces every StreamOutcome goes through: StreamOutcome::new keeps fn_ids_processed as given and derives fn_ids_not_processed as exactly the complement in insertion order; the state is Finished iff no function remains, Interrupted otherwise.',
    'note': 'partial: that the callers pass the ids in start order, and Continue/Break of the control variants, is not decided (deep async bodies).',
}
PROPERTIES['C15'] = {
    'quick': ['rerun2_s01_f', 'rerun2_s00_f'],
    'thorough': ['rerun2_s00_f', 'rerun2_s01_f', 'rerun2_s02_f', 'rerun2_s01_r', 'rerun3_s04_f'],
    'tags': ['C15', 'C01', 'C02', 'C03', 'C05'],
    'attribute_panics': True,
    'functions': STREAM_FUNCS,
    'bounds': {'graphs': 'all 3 labelled DAGs on 2 functions (quick: 2 of them), thorough also the 3-function join', 'first run': 'a stream polled 0..2 times with symbolic drops, then abandoned: stream and held FnRefs dropped in either order', 'second run': 'a fresh stream on the same graph value with the full symbolic consumer of C05; every single-run oracle (C01 C02 C03 C05 C06 tags) must hold', 'unwind': 'n+1'},
    'outside': STREAM_OUT + [NOT_ASYNC, 'more than two consecutive runs', 'first runs that completed, failed or were interrupted through the fold/for_each calls'],
    'assumptions': [M_DAGGY, M_TOKIO, M_TASK, M_REPINV, M_FLAGS, M_REPLAY],
    'claim': 'stream()/stream_with(): after a first stream on the graph was abandoned midway (any poll count in the bound, any drop order), the predecessor counts stored in the graph are unchanged and a second stream satisfies every guarantee of a run on a fresh graph.',
    'note': 'FnGraph has no interior mutability, so shared-reference runs cannot alter it; the harness shows that per-run state (channels, counts, remaining) is really per run.',
}
PROPERTIES['C20'] = {
    'quick': ['pair2_s01_ff'],
    'thorough': ['pair2_s00_ff', 'pair2_s01_ff', 'pair2_s02_ff', 'pair2_s01_fr'],
    'tags': ['C20', 'C01', 'C02', 'C03', 'C05'],
    'attribute_panics': True,
    'functions': STREAM_FUNCS,
    'bounds': {'graphs': 'labelled DAGs on 2 functions', 'runs': 'two streams on the same &FnGraph (forward/forward, forward/reverse), 8 steps, each step a symbolic choice of which stream moves: up to 2 symbolic FnRef drops then one poll_next', 'unwind': 'n+1'},
    'outside': STREAM_OUT + [NOT_ASYNC, 'more than two runs, pairs involving fold/for_each calls, runs on different threads (one polling task)'],
    'assumptions': [M_DAGGY, M_TOKIO, M_TASK, M_REPINV, M_FLAGS, M_REPLAY],
    'claim': 'Two stream() runs interleaved in one task on the same graph: each run, checked with its own trace, satisfies the ordering, exactly-once, no-stall and termination oracles of a single run.',
    'note': 'stream family only.',
}

# RepInv is what C01 and C14 rest on as well: build_n2's C02-tagged assertions count for them
PROPERTIES['C01']['quick'] = AUG_QUICK + BUILD_QUICK + STREAM_QUICK
PROPERTIES['C01']['thorough'] = AUG_ALL + BUILD_QUICK + STREAM_THOROUGH
PROPERTIES['C01']['tags'] = ['C01', 'C02', 'C11: conflicting functions not joined by a path']
PROPERTIES['C03']['tags'] = ['C03', 'C05: stream ended before every function was yielded', 'C05: stream yielded a function after it had ended']
PROPERTIES['C06']['tags'] = ['C06', 'C05: stream pending without wake-up']
PROPERTIES['C01']['functions'] = AUG_FUNCS + ['FnGraphBuilder::build (structure copies, predecessor counts; 2 functions)'] + STREAM_FUNCS
PROPERTIES['C14']['quick'] = ['iter_sym_n3'] + BUILD_QUICK
PROPERTIES['C14']['thorough'] = ['iter_sym_n2', 'iter_sym_n3'] + BUILD_QUICK
PROPERTIES['C14']['tags'] = ['C14', 'C02']
PROPERTIES['C14']['functions'] += ['FnGraphBuilder::build (the structures iter / iter_rev / toposort walk; 2 functions)']
PROPERTIES['C14']['note'] = 'iter / iter_rev / toposort walk graph_structure(_rev): their claim is the composition of the RepInv assertions of build_n2 (tag C02, counted here) with the iteration harness over any RepInv graph.'

PROPERTIES['C17'] = {
    'quick': ['ginfo_n3'],
    'thorough': ['ginfo_n2', 'ginfo_n3'],
    'attribute_panics': True,
    'functions': ['GraphInfo::from_graph', 'GraphInfo::iter', 'GraphInfo::iter_rev', 'GraphInfo::iter_insertion_with_indices'],
    'bounds': {'graphs': 'fully symbolic built graph on 3 (thorough also 2) functions: per pair no edge / either direction, symbolic kinds incl. Data', 'unwind': 5},
    'outside': ['the serialisation clause: serde_yaml string processing is out of reach of CBMC and with daggy modelled the Serialize / Deserialize impls of Dag are stubs, not the real ones', 'more than 3 functions'],
    'assumptions': [M_DAGGY + '; add_edges and Topo over Reversed are covered by the conformance tests', M_FLAGS, M_REPLAY],
    'claim': 'GraphInfo::from_graph yields one node per function in insertion order mapped through the caller\'s function and exactly the edges of the built graph (same order, endpoints and kinds, Data edges included) and never panics (add_edges().expect); iter is topological and iter_rev reverse-topological over all nodes.',
    'note': 'first and third clause only; "serialising and deserialising yields an equal value" is NOT decided.',
}

NOT_APPLICABLE = {
    'C04': 'fold_async*/try_fold_async*/for_each_concurrent*/try_for_each_concurrent* are deep async state machines: Kani lowers them to nested unions and CBMC did not finish symbolic execution of a single call on the EMPTY graph within 30 min (DESIGN.md section 2); the property is entirely about those calls.',
    'C07': 'failure handling lives in the try_for_each_concurrent*/try_fold_async* bodies (deep async, out of reach of CBMC here, DESIGN.md section 2).',
    'C08': 'interruption handling of the fold/for_each calls is deep async (out of reach, DESIGN.md section 2); for the stream clause and for the ready-stream wrapper the schedulers consume, harnesses over the real interruptible crate were built (sint*, track*) but need 782 k program steps / 103 M clauses at 2 functions and end in solver out-of-memory.',
    'C10': 'the limit is enforced by StreamExt::for_each_concurrent inside the deep async bodies; there is no fn_graph code outside them to execute symbolically.',
    'C19': 'auto-trait membership (Send/Sync) of opaque types is decided by rustc\'s trait solver at type-check time: there is no execution, input or schedule to make symbolic and no SMT query whose verdict answers it.',
}
