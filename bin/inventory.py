"""Inventory: which harnesses decide which property, with the stated bounds."""
import json, os

_V = os.path.dirname(os.path.dirname(os.path.abspath(__file__)))
HARNESS_INFO = {h['name']: h for h in json.load(open(os.path.join(_V, 'harness', 'harnesses.json')))}

MODELS = [
    'daggy/petgraph replaced by /verif/models/daggy (array model: insertion-order indices, most-recent-first adjacency walks, petgraph Topo algorithm, add_edge rejects iff a path back exists); conformance-tested against the real crate',
    'tokio::sync::mpsc / RwLock replaced by /verif/models/tokio (single task: waker registration is a flag, wake sets a global flag); conformance-tested against the real crate',
    'one polling task; FnRef drops from other threads are drops between two polls',
    'Kani flags --no-memory-safety-checks --no-overflow-checks: memory safety and CBMC-level arithmetic checks are not part of the claim (Rust debug overflow / bounds panics are MIR assertions and stay checked)',
    'every solver counterexample is replayed against a native build with the REAL daggy/tokio/futures before it is reported',
]
STUB_VD = 'std::collections::VecDeque::{push_back, pop_front} stubbed by a FIFO ring (harness/src/stubs.rs), conformance-tested against the real VecDeque'

STREAM_FUNCS = ['FnGraph::stream_with', 'FnGraph::stream_internal (poll_fn closure)', 'stream_setup_init', 'fns_no_predecessors(_preload)', 'FnRef::drop', 'EdgeCounts accessors']

S2 = ['stream2_s%02d_%s' % (i, d) for i in range(3) for d in 'fr']
S3 = ['stream3_s%02d_%s' % (i, d) for i in range(25) for d in 'fr']
# shapes with a join or a fork in the walked direction first (the minimal counterexamples live there)
S3_QUICK = ['stream3_s04_f', 'stream3_s12_r']

PROPERTIES = {
    'C05': {
        'quick': S2 + S3_QUICK,
        'thorough': S2 + S3 + ['stream_sym_n2'],
        'attribute_panics': True,
        'functions': STREAM_FUNCS,
        'bounds': {'graphs': 'quick: all 3 labelled DAGs on 2 functions + V-join and fork on 3; thorough: all 25 labelled DAGs on 3 functions (concrete shapes) and a fully symbolic 2-function graph', 'order': 'forward and reverse', 'consumer': 'symbolic: 2n+2 poll_next calls, before each up to n drops of symbolically chosen held FnRefs (any number, any order), stream dropped before or after the remaining refs', 'unwind': 5},
        'outside': ['more than 3 functions', 'more than 2n+2 polls', 'real tokio internals (threads, memory ordering)'],
        'assumptions': MODELS,
    },
    'C13': {
        'quick': ['rank_n3'],
        'thorough': ['rank_n2', 'rank_n3', 'rank_n4'],
        'functions': ['RankCalc::calc', 'RankCalc::is_root_node'],
        'bounds': {'graphs': 'symbolic: every ordered pair of n functions is absent / Logic / Contains, cyclic choices rejected by the graph; n = 3 (quick), n = 2..4 (thorough)', 'unwind': '2^(n-1)+2'},
        'outside': ['more than 4 functions', 'access declarations (rank calculation never reads them; C12 harness B2 takes ranks as input)'],
        'assumptions': MODELS[:1] + MODELS[3:] + [STUB_VD],
    },
    'C18': {
        'quick': ['rank_n3', 'rank_n4'],
        'thorough': ['rank_n3', 'rank_n4', 'rank_n5'],
        'functions': ['RankCalc::calc (queue pops counted by the verif_hooks counter)'],
        'bounds': {'graphs': 'symbolic as for C13; n = 3, 4 (quick), n = 5 (thorough; the smallest size at which walking every path exceeds n visits)', 'unwind': '2^(n-1)+2'},
        'outside': ['more than 5 functions', 'work of the other build stages (bounded loops by inspection of their loop structure is not a solver claim)'],
        'assumptions': MODELS[:1] + MODELS[3:] + [STUB_VD],
    },
    'C16': {
        'quick': ['builder_n3', 'builder_batch_n3'],
        'thorough': ['builder_n2', 'builder_batch_n2', 'builder_n3', 'builder_batch_n3'],
        'functions': ['FnGraphBuilder::add_fn', 'add_logic_edge', 'add_contains_edge', 'add_logic_edges', 'add_contains_edges'],
        'bounds': {'calls': '4 symbolic calls (kind, from, to) over 3 functions incl. self-edges, repeats, reversed pairs; batch forms: one edge then a symbolic batch of two', 'unwind': 8},
        'outside': ['more than 3 functions / 4 calls', 'the cycle test inside daggy itself (modelled; conformance-tested)'],
        'assumptions': MODELS[:1] + MODELS[3:],
    },
}
