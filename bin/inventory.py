"""Inventory: which harnesses decide which property, with the stated bounds.

PROPERTIES[id] = {quick, thorough: harness names; functions; bounds; outside; assumptions;
                  claim: text for MANIFEST level_claimed; note: trusted base / what is not decided}
"""
import json, os

_V = os.path.dirname(os.path.dirname(os.path.abspath(__file__)))
HARNESS_INFO = {h['name']: h for h in json.load(open(os.path.join(_V, 'harness', 'harnesses.json')))}

M_DAGGY = 'daggy/petgraph replaced by /verif/models/daggy (array model: insertion-order indices, most-recent-first adjacency walks, petgraph Topo algorithm, add_edge rejects iff a path back exists); conformance-tested against the real crate (models/conformance)'
M_TOKIO = 'tokio::sync::mpsc replaced by /verif/models/tokio (FIFO of <= 4 items, sender count, closed flag; ONE polling task: registering a waker is a flag, waking sets a global flag the harness executor reads); conformance-tested against the real crate'
M_SMALLVEC = 'smallvec::SmallVec replaced by /verif/models/smallvec (<= 2 items in Option slots, insertion order)'
M_TASK = 'one polling task; FnRef drops "from other threads" are drops between two polls (all a single receiver can observe)'
M_FLAGS = 'Kani flags --no-memory-safety-checks --no-overflow-checks --no-assertion-reach-checks: memory safety and CBMC-level arithmetic checks are not part of the claim (Rust debug overflow / bounds / unwrap panics are MIR assertions and stay checked); unwinding assertions are on'
M_REPLAY = 'a failed assertion is reported as VIOLATION only after its solver counterexample reproduced natively (dev and release) against the REAL daggy/tokio/futures (harness-real)'
M_REPINV = 'run-side harnesses start from a FnGraph assembled by the verif_hooks from-parts hook that satisfies the representation invariant (scheduling structures = edges of graph, reversed copy, degrees over all edge kinds, acyclic, every conflicting pair joined by a path); that invariant is what the build-side harnesses (augment*, counts*) establish'
STUB_VD = 'std::collections::VecDeque::{push_back, pop_front} stubbed (kani::stub) by a FIFO ring with the same contract (harness/src/stubs.rs)'
NOT_ASYNC = 'NOT decided: the eight deep async bodies (fold_async*, try_fold_async*, for_each_concurrent*, try_for_each_concurrent* and wrappers). Kani lowers every async state machine to a union and CBMC rewrites the whole root future on each write; for_each_concurrent on the EMPTY graph did not leave symbolic execution in 30 min (DESIGN.md section 2).'

STREAM_FUNCS = ['FnGraph::stream_with', 'FnGraph::stream_internal (the poll_fn closure)', 'stream_setup_init', 'fns_no_predecessors', 'fns_no_predecessors_preload', 'FnRef::drop', 'FnRef::deref', 'EdgeCounts::{incoming,outgoing}']
AUG_FUNCS = ['DataEdgeAugmenter::augment (via verif_hooks::augment)', 'DataAccessDyn::{borrows,borrow_muts} as called by it']

S2F = ['stream2_s%02d_f' % i for i in range(3)]
S2 = ['stream2_s%02d_%s' % (i, d) for i in range(3) for d in 'fr']
S3 = ['stream3_s%02d_%s' % (i, d) for i in range(25) for d in 'fr']
SQ3 = ['streamq3_s04_f', 'streamq3_s12_r']          # join forward, fork reversed (= join in walk order)
SQ3_ALL = ['streamq3_s%02d_%s' % (i, d) for i in (4, 12, 10, 13) for d in 'fr']
STREAM_QUICK = S2F + SQ3
STREAM_THOROUGH = S2 + SQ3_ALL + S3 + ['stream_sym_n2']
AUG_QUICK = ['augment_n2', 'augment3_s04']
AUG_MID = ['augment_n2', 'augment3_s04', 'augment3_s09', 'augment3_s11']
AUG_ALL = ['augment_n2'] + ['augment3_s%02d' % i for i in range(25)]

STREAM_BOUNDS = {
    'graphs': 'quick: all 3 labelled DAGs on 2 functions (forward) + the join (0->2,1->2 forward) and the fork (0->1,0->2 walked in reverse) on 3 functions; thorough: all 25 labelled DAGs on 3 functions and all 3 on 2, each forward and reverse, plus a fully symbolic 2-function graph (symbolic edges, kinds and order)',
    'conflicts': 'symbolic: any symmetric relation in which every conflicting pair is joined by a path',
    'consumer': 'symbolic: 2n+1 poll_next calls (quick n=3: 2n-1), before each poll up to n (quick n=3: 2) drops of symbolically chosen held FnRefs, i.e. any number in any order between two polls; stream dropped with refs still held, refs dropped afterwards',
    'unwind': 'n+1 (all loops, unwinding assertions on)',
}
STREAM_OUT = ['more than 3 functions; graphs on 3 functions are enumerated concretely (all 25), not symbolic: a fully symbolic 3-function graph needs > 40 GB', 'more polls than stated', 'real tokio internals (threads, memory ordering, cooperative budget)', 'stream_interruptible / stream_with_interruptible (harness not built yet)']

PROPERTIES = {
    'C01': {
        'quick': AUG_QUICK + STREAM_QUICK,
        'thorough': AUG_ALL + STREAM_THOROUGH,
        'functions': AUG_FUNCS + STREAM_FUNCS,
        'bounds': dict(STREAM_BOUNDS, build='augment: symbolic 2-function user graph (every ordered pair absent/Logic/Contains) and all 25 user graphs on 3 functions (quick: the join), access declarations symbolic: 2 data types x {none, read, write} per function'),
        'outside': STREAM_OUT + [NOT_ASYNC, 'predecessor counts / structure copies of build() (RepInv) are assumed on the run side, not yet decided by a harness'],
        'assumptions': [M_DAGGY, M_TOKIO, M_SMALLVEC, M_TASK, M_REPINV, M_FLAGS, M_REPLAY],
        'claim': 'Composition, each link a solver-decided assertion: (a) build side - after DataEdgeAugmenter::augment every pair of functions with conflicting access (predicate written from the property text) is joined by a directed path; (b) run side, stream()/stream_with() - over any graph in which conflicting pairs are joined by a path, no function is yielded while a conflicting one is held, for every consumer schedule in the bound. Covers the stream family only.',
        'note': 'for_each_concurrent*/try_for_each_concurrent* are out of reach of the solver here (deep async); a change that sends done early in those bodies is not detected.',
    },
    'C02': {
        'quick': STREAM_QUICK,
        'thorough': STREAM_THOROUGH,
        'functions': STREAM_FUNCS,
        'bounds': STREAM_BOUNDS,
        'outside': STREAM_OUT + [NOT_ASYNC],
        'assumptions': [M_DAGGY, M_TOKIO, M_TASK, M_REPINV, M_FLAGS, M_REPLAY],
        'claim': 'stream()/stream_with(), forward and reverse: at the moment a FnRef is yielded every direct predecessor in the walked direction has been yielded and dropped (hence transitively), for every graph, order and consumer schedule in the bound.',
        'note': 'fold_async*/try_fold_async*/for_each_concurrent*/try_for_each_concurrent* not decided (deep async, see DESIGN.md).',
    },
    'C03': {
        'quick': STREAM_QUICK,
        'thorough': STREAM_THOROUGH,
        'functions': STREAM_FUNCS,
        'bounds': STREAM_BOUNDS,
        'outside': STREAM_OUT + [NOT_ASYNC, 'graphs wider than 3 roots: a ready/done channel sized by a constant >= 3 is not detectable'],
        'assumptions': [M_DAGGY, M_TOKIO, M_TASK, M_REPINV, M_FLAGS, M_REPLAY],
        'claim': 'stream()/stream_with(): no function id is yielded twice, only ids of the graph are yielded, and when the stream ends every function was yielded exactly once.',
        'note': 'fold / for_each families not decided (deep async).',
    },
    'C05': {
        'quick': STREAM_QUICK,
        'thorough': STREAM_THOROUGH,
        'attribute_panics': True,
        'functions': STREAM_FUNCS,
        'bounds': STREAM_BOUNDS,
        'outside': STREAM_OUT,
        'assumptions': [M_DAGGY, M_TOKIO, M_TASK, M_REPINV, M_FLAGS, M_REPLAY],
        'claim': 'All clauses for stream()/stream_with(): whenever poll_next returns Pending with no wake-up signalled every unyielded function still has an undropped/unyielded predecessor; None is returned exactly after all functions were yielded (and again afterwards); no panic for any order of FnRef / stream drops. The solver found the stall of the unfixed code (F1 in known_findings.json) with this check.',
        'note': 'stream_interruptible variants not covered yet; wake-ups are decided over the channel contract model, not over tokio internals.',
    },
    'C06': {
        'quick': AUG_QUICK + STREAM_QUICK,
        'thorough': AUG_ALL + STREAM_THOROUGH,
        'functions': AUG_FUNCS + STREAM_FUNCS,
        'bounds': dict(STREAM_BOUNDS, build='augment: as for C01'),
        'outside': STREAM_OUT + [NOT_ASYNC],
        'assumptions': [M_DAGGY, M_TOKIO, M_SMALLVEC, M_TASK, M_REPINV, M_FLAGS, M_REPLAY],
        'claim': '(a) build side: every edge of the augmented graph that the user did not add has kind Data and joins two functions with conflicting access (read-read sharing yields no edge); (b) stream()/stream_with(): at every idle point every function whose predecessors were all dropped has been yielded.',
        'note': 'for_each_concurrent*/try_for_each_concurrent* idle points not decided (deep async).',
    },
    'C11': {
        'quick': AUG_MID,
        'thorough': AUG_ALL,
        'attribute_panics': True,
        'functions': AUG_FUNCS,
        'bounds': {'graphs': 'symbolic 2-function user graph; user graphs on 3 functions enumerated (quick: join, chain, 0->1 + 2->1; thorough: all 25)', 'access': 'symbolic: 2 data types x {none, read, write} per function', 'ranks': 'the longest-chain reference that the C13 harness proves equal to RankCalc::calc', 'unwind': 6},
        'outside': ['more than 3 functions, more than 2 data types', 'build() as a whole (rank -> augment -> counts -> copies in one call) is not executed in one harness: the stages are decided separately', 'structure copies and predecessor counts (no harness yet)'],
        'assumptions': [M_DAGGY, M_SMALLVEC, M_FLAGS, M_REPLAY],
        'claim': 'DataEdgeAugmenter::augment never panics (update_edge().expect is an assertion), keeps every function under its id and every user edge with its kind, adds only Data edges, leaves the graph acyclic without duplicate edges, joins every conflicting pair by a path and adds a Data edge only between conflicting functions.',
        'note': 'decided for the augmentation stage from arbitrary user graphs; the composition inside build() is by reading (4 consecutive calls).',
    },
    'C12': {
        'quick': AUG_MID,
        'thorough': AUG_ALL,
        'functions': AUG_FUNCS,
        'bounds': {'graphs': 'as C11', 'access': 'as C11', 'unwind': 6},
        'outside': ['more than 3 functions / 2 data types', 'the determinism clause (building twice yields == graphs; one change yields !=) and FnGraph::eq: no harness yet'],
        'assumptions': [M_DAGGY, M_SMALLVEC, M_FLAGS, M_REPLAY],
        'claim': 'Conflicting functions not ordered by user edges end up ordered lower rank first, then insertion order; no Data edge duplicates a user edge or is implied by a path that avoids it.',
        'note': 'the build-twice / PartialEq clause is not decided.',
    },
    'C13': {
        'quick': ['rank_n3'],
        'thorough': ['rank_n2', 'rank_n3', 'rank_n4'],
        'attribute_panics': True,
        'functions': ['RankCalc::calc', 'RankCalc::is_root_node (via verif_hooks::rank_calc)'],
        'bounds': {'graphs': 'symbolic: every ordered pair of n functions is absent / Logic / Contains (cyclic choices rejected by the graph, as the builder does); n = 3 (quick), n = 2..4 (thorough)', 'unwind': '2^(n-1)+2'},
        'outside': ['more than 4 functions', 'ranks() of build() = this stage by reading (build stores the vector unchanged)'],
        'assumptions': [M_DAGGY, STUB_VD, M_FLAGS, M_REPLAY],
        'claim': 'For every DAG in the bound RankCalc::calc returns, for every function, the length of the longest chain of user edges ending at it (reference: n rounds of relaxation over the same symbolic edges).',
        'note': 'VecDeque is stubbed; access declarations cannot influence the result because the stage never reads them.',
    },
    'C16': {
        'quick': ['builder_n3', 'builder_batch_n3'],
        'thorough': ['builder_n2', 'builder_batch_n2', 'builder_n3', 'builder_batch_n3'],
        'functions': ['FnGraphBuilder::add_fn', 'add_logic_edge', 'add_contains_edge', 'add_logic_edges', 'add_contains_edges'],
        'bounds': {'calls': '4 symbolic calls (kind, from, to) over 3 functions incl. self-edges, repeats, reversed pairs; batch forms: one edge, then a symbolic batch of two edges of a symbolic kind', 'unwind': 8},
        'outside': ['more than 3 functions / 4 calls', 'the cycle test inside daggy itself (modelled; conformance-tested against the real crate)'],
        'assumptions': [M_DAGGY, M_FLAGS, M_REPLAY],
        'claim': 'After every call: Err exactly when the reference closure of the accepted edges has a path back (self-edge included); accepted edges keep their ids and order; at most one edge per ordered pair, last kind wins; batch forms stop at the first rejected edge and keep the earlier ones.',
        'note': 'decides fn_graph\'s use of daggy (update_edge vs add_edge, argument order, kinds); daggy\'s reachability is trusted.',
    },
    'C18': {
        'quick': ['rank_n3', 'rank_fwd_n4'],
        'thorough': ['rank_n3', 'rank_n4', 'rank_fwd_n4'],
        'functions': ['RankCalc::calc with the verif_hooks pop counter'],
        'bounds': {'graphs': 'symbolic as for C13; n = 3 (all ordered pairs) and n = 4 (forward pairs; thorough: all ordered pairs)', 'unwind': '2^(n-1)+2'},
        'outside': ['n >= 5: the smallest size at which walking every path exceeds n visits per function (2^(n-2) = 8 > 5) exhausts the solver memory here (2.0 M program steps, > 30 GB); see DESIGN.md C18', 'work of the other build stages'],
        'assumptions': [M_DAGGY, STUB_VD, M_FLAGS, M_REPLAY],
        'claim': 'For every DAG in the bound no function is popped from the rank queue more often than there are functions.',
        'note': 'At n <= 4 the path-walking algorithm still meets the bound (4 pops of the last node of the complete DAG); the refuting size n = 5 is outside what the solver finished. The check therefore confirms the bound only where the current code meets it.',
    },
}

NOT_APPLICABLE = {
    'C04': 'fold_async*/try_fold_async*/for_each_concurrent*/try_for_each_concurrent* are deep async state machines: Kani lowers them to nested unions and CBMC did not finish symbolic execution of a single call on the EMPTY graph within 30 min (DESIGN.md section 2); the property is entirely about those calls.',
    'C07': 'failure handling lives in the try_for_each_concurrent*/try_fold_async* bodies (deep async, out of reach of CBMC here, DESIGN.md section 2).',
    'C08': 'interruption handling of the fold/for_each calls is deep async (out of reach); the stream_interruptible clause has no harness yet.',
    'C09': 'StreamOutcome is produced only by the fold/for_each calls (deep async, out of reach); unit harnesses for StreamOutcome::new / poll_and_track_fn_ready not built yet.',
    'C10': 'the limit is enforced by StreamExt::for_each_concurrent inside the deep async bodies; there is no fn_graph code outside them to execute symbolically.',
    'C14': 'no harness yet (sequential iteration over the Topo model).',
    'C15': 'no harness yet (re-run of stream()).',
    'C17': 'no harness yet (GraphInfo::from_graph); the serialisation clause is out of reach (serde_yaml string processing).',
    'C19': 'auto-trait membership (Send/Sync) of opaque types is decided by rustc\'s trait solver at type-check time: there is no execution, input or schedule to make symbolic and no SMT query whose verdict answers it.',
    'C20': 'no harness yet (two interleaved streams).',
}
