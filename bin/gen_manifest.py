#!/usr/bin/env python3
"""Writes /verif/MANIFEST.json from bin/inventory.py (single source of truth)."""
import json, os, sys
V = os.path.dirname(os.path.dirname(os.path.abspath(__file__)))
sys.path.insert(0, os.path.join(V, 'bin'))
from inventory import PROPERTIES, NOT_APPLICABLE
props = [json.loads(l)['id'] for l in open(os.path.join(V, 'properties.jsonl'))]
checks = []
for pid in props:
    if pid not in PROPERTIES:
        continue
    s = PROPERTIES[pid]
    checks.append({
        'property_id': pid,
        'quick_cmd': 'bin/check %s --tier quick' % pid,
        'thorough_cmd': 'bin/check %s --tier thorough' % pid,
        'evidence_file': '/verif/evidence/%s.json' % pid,
        'replay_cmd_template': 'bin/check --replay {path}',
        'engine': 'kani-cbmc',
        'level_claimed': {'category': 'other',
                          'text': 'Bounded symbolic execution of the real code, decided by a SAT solver: ' + s['claim'] + ' Bounded (sizes, polls, unwindings stated in the evidence), so neither a proof nor state enumeration; every reported counterexample is replayed natively against the real dependencies first.',
                          'design_ref': 'DESIGN.md section 4, ' + pid},
        'level_note': s['note'] + ' Trusted: ' + '; '.join(s['assumptions'][:3]) + ' ...',
        'technique': 'bounded symbolic execution of the compiled Rust code (Kani 0.68 -> CBMC 6.11 -> CaDiCaL); counterexamples replayed natively',
    })
na = [{'property_id': p, 'reason': NOT_APPLICABLE[p]} for p in props if p not in PROPERTIES]
missing = [p for p in props if p not in PROPERTIES and p not in NOT_APPLICABLE]
assert not missing, missing
m = {
    'version': 1,
    'setup_cmd': 'bin/setup',
    'hooks': {
        'guard': 'cargo feature verif_hooks',
        'enable': 'path dependency on /repo with features = ["verif_hooks"] (harness/Cargo.toml, harness-real/Cargo.toml)',
        'baseline_off_cmd': 'cd /repo && cargo test --workspace --no-fail-fast --offline',
        'source_commits': ['443ee2e', '1458867', '38fff6c'],
        'add_only': True,
    },
    'engines': [{'name': 'kani-cbmc', 'path': '/verif/bin/check', 'serves_properties': [c['property_id'] for c in checks],
                 'kind_free_text': 'Kani 0.68 harnesses (/verif/harness) over the real fn_graph code with modelled daggy/tokio/smallvec; driver parses per-assertion verdicts, replays counterexamples against the real crates (/verif/harness-real), caches verdicts by content hash of /repo + models + harnesses'}],
    'checks': checks,
    'not_applicable': na,
    'notes': 'Exit codes of bin/check: 0 held, 1 VIOLATION (replayed natively), 2 inconclusive / machinery problem. Genuine defects found are listed in known_findings.json (F1: stream() stall, fixed by /repo ebd41f3; F2: exponential rank calculation, fixed by /repo 85995a5).',
}
json.dump(m, open(os.path.join(V, 'MANIFEST.json'), 'w'), indent=1)
print(len(checks), 'checks,', len(na), 'not applicable')
